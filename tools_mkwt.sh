#!/bin/sh
# tools_mkwt.sh <dir> : scratch git worktree of /repo at HEAD with the pre-built compiled extensions copied in
set -e
d="$1"
git -C /repo worktree add --detach "$d" HEAD >/dev/null 2>&1
(cd /repo && rsync -a --include='*/' --include='*.so' --exclude='*' TidalPy/ "$d/TidalPy/")
mkdir -p "$d/.xdg"
echo "$d ready"
