#!/venv/bin/python
"""tools_store_seed.py <worktree> <seed id> <property> "<needs>" "<caught by>" : copy a confirmed sub-agent change into
/verif/seeded/<id>/ (patch.diff, demo.py, notes.md, meta.json)."""
import json, os, re, shutil, sys
wt, sid, prop, needs, caught = sys.argv[1:6]
d = os.path.join('/verif/seeded', sid)
os.makedirs(d, exist_ok=True)
for f in ('patch.diff', 'demo.py', 'notes.md'):
    if os.path.exists(os.path.join(wt, '_seed', f)):
        shutil.copy(os.path.join(wt, '_seed', f), os.path.join(d, f))
log = open('/tmp/confirm_%s.log' % os.path.basename(wt).replace('wt_', '')).read()
m = re.search(r'demo exit clean=(\d+) changed=(\d+)', log)
t = re.search(r'=+ (.*passed.*) =+', log)
meta = {
    'id': sid, 'property': prop, 'origin': 'independent sub-agent given only the property text and a scratch worktree (%s)' % wt,
    'base_commit': os.popen('git -C /repo rev-parse --short HEAD').read().strip(),
    'files_touched': sorted(set(re.findall(r'^\+\+\+ b/(.*)$', open(os.path.join(d, 'patch.diff')).read(), re.M))),
    'needs_to_manifest': needs,
    'confirmed_by_me': {
        'how': 'tools_confirm_seed.sh in the scratch worktree: patch applies to a clean checkout; demo.py run without and with the change; full existing suite run with the change',
        'demo_exit_clean': int(m.group(1)) if m else None, 'demo_exit_changed': int(m.group(2)) if m else None,
        'existing_suite_with_change': t.group(1) if t else None,
        'note': 'the 2 failures are test_exoplanet_download* (need network) and fail on the unchanged tree as well; 892 passes = baseline',
    },
    'caught_by': caught,
}
json.dump(meta, open(os.path.join(d, 'meta.json'), 'w'), indent=1)
print(json.dumps(meta['confirmed_by_me'], indent=1))
