"""C18 engine: the real `multiprocessing_run` under a simulated pool, file system, clock and kill switch."""
import hashlib
import importlib
import json
import os

import numpy as np

from simkit.engine import EngineBase
from simkit.draw import digest as jdigest
from . import workload
from .kernel import Kernel
from .simfs import SimFS
from .simpool import Stubs

STUDY_DIR = '/sim/study'
MODNAME = 'TidalPy.utilities.multiprocessing.multiprocessing'


def post_fn(post_dir, mp_results, input_data_to_use, input_arrays, *a, **k):
    ctx = workload.CURRENT
    ctx.post_calls.append((ctx.attempt, None if mp_results is None else len(mp_results)))


class MpStudyEngine(EngineBase):
    name = 'mpstudy'
    source_files = ['TidalPy/utilities/multiprocessing/multiprocessing.py',
                    'TidalPy/utilities/multiprocessing/__init__.py',
                    'TidalPy/utilities/numpy_helper/array_other.py',
                    'TidalPy/utilities/string_helper/string_helper.py']
    has_sim_clock = True
    sim_time_note = 'discrete-event clock: every seam step advances it by the plan\'s tick, every case by case_seconds'

    def prepare(self, tier):
        self.M = importlib.import_module(MODNAME)
        # a simulated kill abandons half-written zip archives; their finalisers complain on stderr when collected
        import sys
        sys.unraisablehook = lambda unraisable: None
        import dill  # noqa: F401
        # warm up find_nearest (numba) before forking
        from TidalPy.utilities.numpy_helper.array_other import find_nearest
        find_nearest(np.linspace(0., 1., 3), 0.5)
        from . import seams
        self.seam_problems = seams.audit_source(self.M)

    def unowned_seams(self):
        """Reasons why the module under test cannot be simulated faithfully (see seams.py); empty on the shipped code."""
        from . import seams
        M = importlib.import_module(MODNAME)
        fs = SimFS()
        st = Stubs(M, fs, Kernel({}), 16, 10 ** 18, {})
        return seams.audit_source(M) + st.problems

    def tier_config(self, tier):
        if tier == 'quick':
            return {'runs': 6000, 'budget_s': 75.0, 'job_cap_s': 120.0, 'determinism_seeds': 12,
                    'shrink_budget': 150, 'shrink_cap_s': 300.0}
        return {'runs': 400000, 'budget_s': 1500.0, 'job_cap_s': 120.0, 'determinism_seeds': 40,
                'shrink_budget': 400, 'shrink_cap_s': 900.0}

    def gen_plan(self, seed, tier):
        return workload.gen_plan(seed, tier)

    def shrink_candidates(self, plan):
        return workload.shrink_candidates(plan)

    def plan_size(self, plan):
        ref = workload.Reference(plan)
        faults = sum((1 if a.get('kill') else 0) + len(a.get('fail', [])) for a in plan['attempts'])
        return len(plan['attempts']) * 1000 + ref.total * 20 + faults * 50 + len(json.dumps(plan)) // 20

    # ------------------------------------------------------------------------------------------
    def run_plan(self, plan):
        M = self.M
        ref = workload.Reference(plan)
        fs = SimFS(bufsize=plan.get('bufsize', 8192), listdir_seed=plan.get('listdir_seed', 0))
        study_dir = '/sim/' + plan.get('dir_name', 'study')
        ds = plan.get('dir_state', 'absent')
        if ds != 'parent_absent':
            fs.mkdirs_raw('/sim')
        if ds == 'empty':
            fs.mkdirs_raw(study_dir)
        input_data = []
        for i in plan['inputs']:
            must = i['must']['vals']
            must = tuple(must) if i['must']['kind'] == 'tuple' else list(must)
            input_data.append(M.MultiprocessingInput(i['name'], i['nice'], i['start'], i['end'], i['scale'], must, i['n']))
        input_data = tuple(input_data)

        records = []
        completed = {}       # case -> first attempt in which its bookkeeping finished
        counters = {}
        sets = {'crash_states': [], 'interleavings': []}
        hist = hashlib.sha256()
        trace = []
        outcomes = []
        harness_errors = []
        sim_time = 0.0
        steps = 0
        max_lines = 0
        n_att = len(plan['attempts'])
        final_value = None

        def bump(k, n=1):
            counters[k] = counters.get(k, 0) + n

        for j, att in enumerate(plan['attempts']):
            kernel = Kernel(att.get('sched'), att.get('kill'), step_budget=plan.get('step_budget', 100000),
                            tick=plan.get('tick', 0.001), t0=1.7e9 + j * 1.0e6)
            kernel.trace_files = (M.__file__,)
            fs.kernel = kernel
            ctx = workload.RunContext(plan, ref, kernel, j, records)
            ctx.post_calls = []
            ctx.last_case = {}
            workload.CURRENT = ctx
            stats = {}

            def on_item_done(task_name, ret, _ctx=ctx, _j=j):
                # bookkeeping of one case finished in this attempt (func_to_use returned)
                case = _ctx.last_case.pop(task_name, None)
                res = ret[2] if isinstance(ret, tuple) and len(ret) >= 3 else getattr(ret, 'result', None)
                if case is not None and res is not None:
                    completed.setdefault(case, _j)
            stats['on_item_done'] = on_item_done

            kwargs = dict(verbose=plan.get('verbose', False), max_procs=plan.get('max_procs'),
                          perform_memory_check=plan.get('memcheck', True),
                          avoid_crashes=att.get('avoid_crashes', plan.get('avoid_crashes', True)))
            if j > 0 or not plan.get('first_force_restart', True):
                kwargs['force_restart'] = False
            if plan.get('postprocess'):
                kwargs['postprocess_func'] = post_fn

            def main(_kw=kwargs):
                return M.multiprocessing_run(study_dir, 'sim study', workload.study_fn, input_data, **_kw)

            stubs = Stubs(M, fs, kernel, plan.get('cpus', 16), 10 ** 18, stats)
            unowned = getattr(self, 'seam_problems', []) + stubs.problems
            if unowned:
                harness_errors.append('no verdict - the module under test reaches the outside world through a seam the '
                                      'simulator does not own: ' + '; '.join(unowned[:6]))
                outcomes.append({'kind': 'harness'})
                break
            with stubs:
                parent = kernel.run(main)
            fs.kernel = None
            workload.CURRENT = None
            steps += kernel.step
            max_lines = max(max_lines, kernel.lines)
            sim_time += kernel.now - kernel.t0
            for ev in kernel.events:
                hist.update(repr(ev).encode())
            sets['interleavings'].append(jdigest(kernel.sched.taken))
            if kernel.failed:
                harness_errors.append('attempt %d: %s' % (j, kernel.failed))
                outcome = {'kind': 'harness'}
            elif kernel.budget_exceeded or kernel.line_budget_exceeded:
                outcome = {'kind': 'budget', 'where': kernel.kill_context}
            elif kernel.killed:
                outcome = {'kind': 'killed', 'step': kernel.kill_step, 'at': kernel.kill_context}
                bump('fault:kill_fired')
                bump('fault:kill_before:' + (kernel.kill_context or '').split(' before ')[-1].split(' ')[0])
                sets['crash_states'].append(fs.image_digest())
                self._crash_probes(fs, bump, study_dir)
            elif isinstance(parent.exc, BaseException):
                outcome = {'kind': 'raised', 'type': type(parent.exc).__name__, 'msg': str(parent.exc)[:300]}
            else:
                outcome = {'kind': 'returned', 'none': parent.result is None,
                           'n': None if parent.result is None else len(parent.result)}
                final_value = parent.result
                if plan.get('_details'):
                    from .realrun import normalise_value
                    outcome['value'] = normalise_value(parent.result)
            if att.get('kill') and outcome['kind'] != 'killed':
                bump('fault:kill_not_reached')
            if ctx.unknown_inputs:
                outcome['unknown_inputs'] = len(ctx.unknown_inputs)
            outcome['post_calls'] = list(ctx.post_calls)
            outcomes.append(outcome)
            trace.append('--- attempt %d: sched=%s kill=%s fail=%s -> %s' % (j, att.get('sched', {}).get('mode'), att.get('kill'), att.get('fail'), outcome))
            tail = kernel.events[-25:] if outcome['kind'] != 'returned' else kernel.events[-6:]
            trace.extend('%5d %-7s %-14s %s' % ev for ev in tail)
            hist.update(json.dumps(outcome, sort_keys=True, default=repr).encode())
            if kernel.now - kernel.t0 >= 86400.:
                bump('probe:study_longer_than_a_day')
            if outcome['kind'] == 'returned' and outcome['none']:
                bump('probe:map_raised_study_returned_None')
            if outcome['kind'] == 'harness':
                break

        n_fail_raised = sum(1 for (c, a, s) in records if c is not None and
                            (c in plan['attempts'][a].get('fail', []) or c in plan.get('permanent_fail', [])))
        if n_fail_raised:
            bump('fault:case_failure_raised', n_fail_raised)
        bump('probe:attempts', len(outcomes))
        bump('probe:cases_executed', len(records))

        violations = []
        if not harness_errors:
            violations = self._oracle(plan, ref, outcomes, final_value, records, completed, bump)
        hist.update(fs.image_digest().encode())
        hist.update(repr([(c, a) for c, a, s in records]).encode())
        dig = hist.hexdigest()[:16]
        faults_fired = counters.get('fault:kill_fired', 0) + n_fail_raised
        sample = {
            'inputs': [[i['name'], i['scale'], i['n'], i['must']['kind'], i['must']['vals']] for i in plan['inputs']],
            'total_cases': ref.total, 'procs': plan.get('max_procs') or int(plan['cpus'] * 0.75),
            'avoid_crashes': plan['avoid_crashes'], 'bufsize': plan['bufsize'], 'arr_len': plan['arr_len'],
            'attempts': [{'kill': a.get('kill'), 'fail': a.get('fail'), 'sched': a.get('sched', {}).get('mode'),
                          'outcome': {k: v for k, v in o.items() if k != 'post_calls'}}
                         for a, o in zip(plan['attempts'], outcomes)],
            'cases_executed_per_attempt': [sum(1 for r in records if r[1] == j) for j in range(n_att)],
        }
        details = None
        if plan.get('_details'):
            from .realrun import tree_summary
            files, _ = fs.image()
            pre = study_dir + '/'
            details = {'tree': tree_summary({p[len(pre):]: b for p, b in files.items() if p.startswith(pre)}),
                       'executed': sorted(((c, a) for c, a, s in records), key=lambda t: (t[1], -1 if t[0] is None else t[0])),
                       'outcomes': outcomes}
        return {
            'details': details,
            'violations': violations, 'digest': dig, 'key': dig, 'nontrivial': faults_fired > 0,
            'counters': counters, 'sets': sets, 'sim_time_s': sim_time, 'steps': steps,
            'harness_errors': harness_errors, 'trace': trace, 'sample': sample,
            'maxima': {'steps_per_run': steps, 'cases': ref.total, 'sim_seconds_per_run': sim_time,
                       'line_events_in_code_under_test_per_attempt': max_lines},
        }

    @staticmethod
    def _crash_probes(fs, bump, study_dir=STUDY_DIR):
        """Non-gating probes over the durable image at a kill (what crash states were reached)."""
        files, dirs = fs.image()
        if study_dir + '/tpy_mp.log' in files and len(files[study_dir + '/tpy_mp.log']) == 0:
            bump('probe:crash_with_empty_journal')
        for p in files:
            if p.endswith('/mp_success.log'):
                d = p[:-len('/mp_success.log')]
                r = d + '/mp_results.npz'
                if r not in files:
                    bump('probe:crash_marker_without_result_file')
                elif not _npz_loads(files[r]):
                    bump('probe:crash_marker_with_torn_result_file')
            if p.endswith('/mp_results.npz'):
                d = p[:-len('/mp_results.npz')]
                if d + '/mp_success.log' not in files:
                    bump('probe:crash_result_file_without_marker')
                if not _npz_loads(files[p]):
                    bump('probe:crash_torn_result_file')

    # ------------------------------------------------------------------------------------------
    def _oracle(self, plan, ref, outcomes, final_value, records, completed, bump):
        V = []

        def viol(clause, cls, message, **sig):
            s = {'clause': clause, 'class': cls}
            s.update(sig)
            V.append({'property': 'C18', 'clause': clause, 'class': cls, 'signature': s, 'message': message})

        last = outcomes[-1]
        n_att = len(plan['attempts'])
        if len(outcomes) < n_att:
            return V
        # 0. the study function only ever saw inputs of the grid
        for j, o in enumerate(outcomes):
            if o.get('unknown_inputs'):
                viol('own-identity', 'inputs-not-on-grid', 'attempt %d passed %d input tuples to the study function that are '
                     'not cases of the study' % (j, o['unknown_inputs']))
                break
        # 1. bounded liveness of the fault-free final attempt
        if last['kind'] == 'budget':
            viol('liveness', 'step-budget', 'the fault-free final attempt did not finish within its step / line budget (%s)' % last.get('where'))
            return V
        if last['kind'] == 'raised':
            msg = _norm_msg(last['msg'])
            viol('liveness', 'raised:%s:%s' % (last['type'], msg[:40]),
                 'the fault-free final attempt (attempt %d of %d) raised %s: %s' % (n_att - 1, n_att, last['type'], last['msg']),
                 exception=last['type'], message_prefix=msg[:40])
            return V
        if last['kind'] != 'returned':
            return V
        if last['none']:
            viol('liveness', 'returned-None', 'the fault-free final attempt returned None (study reported as crashed)')
            return V
        # 2..4 over the returned list
        entries = []
        malformed = 0
        for e in final_value:
            try:
                entries.append((int(e[0]), tuple(int(x) for x in e[1]), e[2]))
            except Exception:
                malformed += 1
        if malformed:
            viol('exactly-once', 'malformed-entry', '%d returned entries are not (case_number, input_index, result) triples' % malformed)
        numbers = sorted(e[0] for e in entries)
        want = list(range(ref.total))
        if numbers != want:
            missing = sorted(set(want) - set(numbers))
            dup = sorted(set(n for n in numbers if numbers.count(n) > 1))
            extra = sorted(set(numbers) - set(want))
            cls = 'case-numbers'
            viol('exactly-once', cls,
                 'returned case numbers are not each of 0..%d exactly once: missing=%s duplicated=%s unknown=%s (returned %d entries)'
                 % (ref.total - 1, missing[:8], dup[:8], extra[:8], len(entries)),
                 missing=bool(missing), duplicated=bool(dup), count_ok=(len(entries) == ref.total))
        bad_idx = [(c, idx) for c, idx, _ in entries if 0 <= c < ref.total and idx != ref.index_of_case[c]]
        if bad_idx:
            viol('own-identity', 'grid-index', 'entries carry a grid index that is not the index of their own case number: %s (expected %s)'
                 % (bad_idx[:4], [ref.index_of_case[c] for c, _ in bad_idx[:4]]))
        bad_res = []
        for c, idx, res in entries:
            if not (0 <= c < ref.total):
                continue
            if c in plan.get('permanent_fail', []):
                if res is not None:
                    bad_res.append((c, 'expected None for a permanently failing case'))
                continue
            why = _result_mismatch(res, workload.f_ref(ref.values_of_case[c], plan['arr_len']))
            if why:
                bad_res.append((c, why))
        if bad_res:
            viol('same-result', 'result-differs', 'results differ from an uninterrupted run: %s' % bad_res[:4])
        # 5. no redo of completed cases
        redo = sorted(set((c, a, completed[c]) for (c, a, s) in records if c in completed and a > completed[c]))
        if redo:
            viol('no-redo', 're-executed', 'cases executed again after their bookkeeping had completed in an earlier attempt: '
                 '%s (case, attempt, completed_in)' % redo[:6])
        if len(outcomes) > 1:
            skipped = ref.total - sum(1 for r in records if r[1] == n_att - 1)
            if skipped > 0:
                bump('probe:final_attempt_skipped_completed_cases', skipped)
        return V

    # ------------------------------------------------------------------------------------------
    def pre_checks(self, tier, base_seed, workers):
        from . import fidelity, sweep
        from simkit.runner import run_jobs
        unowned = self.unowned_seams()
        if unowned:
            return {'harness_errors': [], 'results': [], 'summary': {}, 'abort':
                    'no verdict: the module under test reaches the outside world through a seam the simulator does not own '
                    '(the simulated crash/restart history would be half real): ' + '; '.join(unowned[:8])}
        out = fidelity.run(self, base_seed, 3 if tier == 'quick' else 20, workers)
        plans, meta = sweep.sweep_plans(self, base_seed, 2 if tier == 'quick' else 24, double=(tier != 'quick'))
        res = run_jobs(self, [('plan', p) for p in plans], workers=workers, job_cap_s=120.0)
        n_ok = 0
        for idx, status, item in res:
            if status == 'ok':
                n_ok += 1
                item['seed'] = None
                out['results'].append(item)
            else:
                out['harness_errors'].append('kill sweep plan %d: %s: %s' % (idx, status, str(item)[-800:]))
        if tier != 'quick':
            from . import confirm
            rows, errs = confirm.run(self)
            out['harness_errors'] += errs
            out['summary']['confirm_real_kills'] = {
                'note': 'same semantic kill point in simulation and against real pathos processes SIGKILLed as a group, then a '
                        'fault-free restart; verdicts must agree (current tree and the in-memory mutant marker-before-result)',
                'rows': [{'event': r['event'], 'tree': r['tree'], 'real': r['real'].get('verdict'), 'real_type': r['real'].get('type'),
                          'sim': r['sim'].get('verdict'), 'sim_type': r['sim'].get('type'), 'agree': r['agree']} for r in rows]}
        out['summary']['exhaustive_kill_sweeps'] = {'configs': meta, 'plans_run': n_ok,
                                                    'note': 'every seam step of the first attempt (and, thorough tier, of a killed restart) used as the kill point'}
        return out

    # ------------------------------------------------------------------------------------------
    def rule_text(self):
        return ('each evaluation is one simulated study history: a seeded grid (1-3 inputs, <=24 cases, list/tuple/empty '
                'must-include), pool size 4..16, 1-4 attempts on the same simulated directory with seeded seam-level '
                'schedules, kills (uniform step or aimed at a bookkeeping step) and failing cases, last attempt fault-free; '
                'the real multiprocessing_run runs unmodified. distinct = distinct digest of the complete event history '
                '(every seam step of every simulated process + outcomes + final file-system image); non-trivial = at least '
                'one fault actually fired (a kill that landed or a case that raised).')

    def components(self):
        return {
            'real': ['TidalPy.utilities.multiprocessing.multiprocessing.multiprocessing_run and its closure func_to_use (unmodified, imported from /repo)',
                     'find_nearest (numba), convert_time_to_hhmmss', 'numpy save/savez/load and zipfile producing and parsing the bytes',
                     'dill pickling of every task batch and result', 'io.BufferedWriter/BufferedRandom/TextIOWrapper buffering'],
            'stub': ['pathos ProcessingPool / multiprocess Pool.map -> SimPool (baton-passed threads)',
                     'open / os / np.save,savez,load -> SimFS (in-memory, raw-write granularity)',
                     'time / datetime -> discrete-event clock', 'psutil -> fixed machine description', 'print -> event log'],
        }

    def assumptions(self):
        return ['crash model: the whole process tree is killed; every issued raw write survives, user-space buffers are lost, no reordering',
                'a restart begins only after every process of the killed attempt has stopped',
                'power loss, EIO, disk-full and the stdlib-pool fallback are not simulated (the property does not claim them)',
                'SimPool follows multiprocess 0.70.19 Pool.map semantics; checked against the real pool by the fidelity self-test',
                'seam-level interleaving is complete because simulated processes share only the file system and the pool queues']


def _npz_loads(data):
    import io
    try:
        with np.load(io.BytesIO(bytes(data))) as z:
            for k in z.files:
                z[k]
        return True
    except Exception:
        return False


def _norm_msg(msg):
    import re
    m = re.sub(r"'[^']*'?", 'S', str(msg))          # quoted text (paths, offending tokens)
    m = re.sub(r'[-+]?[0-9]+(\.[0-9]+)?', 'N', m)
    return m


def _result_mismatch(res, expected):
    if res is None:
        return 'result is None'
    try:
        keys = sorted(res.keys())
    except Exception:
        return 'result is not a mapping (%s)' % type(res).__name__
    if keys != sorted(expected.keys()):
        return 'keys %s != %s' % (keys, sorted(expected.keys()))
    for k in keys:
        try:
            a = np.asarray(res[k])
        except Exception as e:
            return 'cannot read %s: %s' % (k, type(e).__name__)
        b = np.asarray(expected[k])
        if a.shape != b.shape or not np.array_equal(a, b):
            return 'value of %r differs' % k
    return None
