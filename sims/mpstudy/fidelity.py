"""Fidelity self-test of the C18 stubs: the same fault-free / failing-case / restart plans are executed in
simulation and with the real pathos pool on a real temporary directory; everything that does not depend on the
schedule or the clock must agree.  A disagreement is a harness error (exit 2), never a property violation."""
import json
import os
import shutil
import subprocess
import sys
import tempfile
from concurrent.futures import ThreadPoolExecutor

from simkit.draw import Draw, subseed
from simkit import envsetup
from . import workload


def fidelity_plan(seed, i):
    """Small plans without kills: clean run; a failing case under both avoid_crashes settings; then a clean restart."""
    d = Draw(seed)
    plan = workload.gen_plan(seed, 'quick')
    procs = d.between(4, 6)
    plan['max_procs'] = procs
    plan['cpus'] = 16
    plan['memcheck'] = False
    plan['bufsize'] = 8192
    plan['verbose'] = False
    plan['permanent_fail'] = []
    total = workload.Reference(plan).total
    shape = i % 3
    seq = {'mode': 'seeded', 'seed': d.below(1 << 20), 'sticky': 3}
    if shape == 0:
        plan['attempts'] = [{'kill': None, 'fail': [], 'sched': dict(seq)}]
    elif shape == 1:
        plan['avoid_crashes'] = True
        plan['attempts'] = [{'kill': None, 'fail': [d.below(total)], 'sched': dict(seq)},
                            {'kill': None, 'fail': [], 'sched': dict(seq)}]
    else:
        plan['avoid_crashes'] = False
        plan['attempts'] = [{'kill': None, 'fail': [d.below(total)], 'sched': dict(seq)},
                            {'kill': None, 'fail': [], 'sched': dict(seq)}]
    plan['_details'] = True
    return plan


def run_real(plan, cap_s=300):
    work = tempfile.mkdtemp(prefix='fid-', dir=os.environ.get('TMPDIR'))
    try:
        plan_path = os.path.join(work, 'plan.json')
        with open(plan_path, 'w') as f:
            json.dump(plan, f)
        outs = []
        for j in range(len(plan['attempts'])):
            out_path = os.path.join(work, 'out%d.json' % j)
            p = subprocess.run([sys.executable, '-m', 'sims.mpstudy.realrun', plan_path, str(j), work, out_path],
                               cwd=envsetup.VERIF, capture_output=True, text=True, timeout=cap_s)
            if not os.path.exists(out_path):
                return None, 'real attempt %d produced no output: rc=%s %s' % (j, p.returncode, p.stderr[-1500:])
            with open(out_path) as f:
                outs.append(json.load(f))
        return outs, None
    finally:
        shutil.rmtree(work, ignore_errors=True)


def compare(sim, real_outs):
    diffs = []
    so = sim['details']['outcomes']
    for j, ro in enumerate(real_outs):
        s = so[j]
        if ro['outcome'] == 'returned':
            if s['kind'] != 'returned':
                diffs.append('attempt %d: real returned, simulation %s' % (j, s))
            elif json.loads(json.dumps(s.get('value'))) != ro['value']:
                diffs.append('attempt %d: returned values differ: sim=%s real=%s' % (j, str(s.get('value'))[:300], str(ro['value'])[:300]))
        else:
            if s['kind'] != 'raised' or not ro['error'].startswith(s['type']):
                diffs.append('attempt %d: real raised %s, simulation %s' % (j, ro['error'][:200], s))
    last = real_outs[-1]
    st = json.loads(json.dumps(sim['details']['tree']))
    if st != last['tree']:
        keys = sorted(set(st) | set(last['tree']))
        bad = [(k, st.get(k), last['tree'].get(k)) for k in keys if st.get(k) != last['tree'].get(k)]
        diffs.append('file trees differ (path, sim, real): %s' % bad[:5])
    se = [list(x) for x in sim['details']['executed']]
    if se != [list(x) for x in last['executed']]:
        diffs.append('executed (case, attempt) sets differ: sim=%s real=%s' % (se, last['executed']))
    return diffs


def run(engine, base_seed, n, workers):
    plans = [fidelity_plan(subseed(base_seed, 'C18-fidelity', i), i) for i in range(n)]
    harness_errors = []
    compared = 0
    with ThreadPoolExecutor(max_workers=min(6, n)) as ex:
        reals = list(ex.map(run_real, plans))
    for i, (plan, (outs, err)) in enumerate(zip(plans, reals)):
        if err:
            harness_errors.append('fidelity %d: %s' % (i, err))
            continue
        sim = engine.run_plan(plan)
        diffs = compare(sim, outs)
        compared += 1
        for dmsg in diffs:
            harness_errors.append('fidelity %d (seed %d): simulation and real pathos run disagree: %s' % (i, plan['seed'], dmsg))
    return {'harness_errors': harness_errors, 'results': [],
            'summary': {'fidelity_plans_compared_with_real_pathos': compared, 'fidelity_disagreements': len(harness_errors),
                        'fidelity_shapes': ['fault-free', 'failing case, avoid_crashes=True, then restart',
                                            'failing case, avoid_crashes=False (map raises), then restart']}}
