"""Run ONE attempt of a plan with the real pathos pool on a real directory (fidelity self-test of the stubs).

usage: python -m sims.mpstudy.realrun <plan.json> <attempt index> <workdir> <out.json>
Each attempt runs in its own interpreter, like a user re-running a script (pathos caches pools per process).
"""
import hashlib
import json
import os
import sys

import numpy as np


class FileRecords:
    """Execution records that survive the process boundary: one line per executed case."""

    def __init__(self, directory):
        self.dir = directory
        os.makedirs(directory, exist_ok=True)

    def append(self, rec):
        case, attempt, step = rec
        with open(os.path.join(self.dir, '%d.txt' % os.getpid()), 'a') as f:
            f.write('%s %d\n' % (case, attempt))


def read_records(directory):
    out = []
    if os.path.isdir(directory):
        for fn in sorted(os.listdir(directory)):
            with open(os.path.join(directory, fn)) as f:
                for line in f:
                    c, a = line.split()
                    out.append((None if c == 'None' else int(c), int(a)))
    return sorted(out, key=lambda t: (t[1], -1 if t[0] is None else t[0]))


def normalise_value(value):
    if value is None:
        return None
    out = []
    for e in value:
        res = e[2]
        if res is not None:
            res = {k: np.asarray(res[k]).tolist() for k in sorted(res.keys())}
        out.append([int(e[0]), [int(x) for x in e[1]], res])
    return sorted(out, key=lambda t: (t[0], t[1]))


def tree_summary(files):
    """files: {relative path: bytes}.  Schedule- and clock-independent summary of a study directory."""
    out = {}
    for rel, data in sorted(files.items()):
        base = rel.rsplit('/', 1)[-1]
        if base.endswith('.npz') or base.endswith('.npy') or base == 'error.log':
            out[rel] = hashlib.sha256(data).hexdigest()[:16]
        elif base == 'tpy_mp.log':
            text = data.decode('utf-8', 'replace')
            head = text.split('------------\n')[0].splitlines()
            out[rel] = [l for l in head if not l.startswith('Study started on')]
        else:
            out[rel] = 'present'
    return out


def main():
    plan_path, attempt, workdir, out_path = sys.argv[1], int(sys.argv[2]), sys.argv[3], sys.argv[4]
    with open(plan_path) as f:
        plan = json.load(f)
    from sims.mpstudy import workload
    from sims.mpstudy.engine import post_fn
    import TidalPy.utilities.multiprocessing.multiprocessing as M
    ref = workload.Reference(plan)
    ctx = workload.RunContext(plan, ref, kernel=None, attempt=attempt, record_sink=FileRecords(os.path.join(workdir, 'records')))
    ctx.post_calls = []
    workload.CURRENT = ctx
    input_data = []
    for i in plan['inputs']:
        must = i['must']['vals']
        must = tuple(must) if i['must']['kind'] == 'tuple' else list(must)
        input_data.append(M.MultiprocessingInput(i['name'], i['nice'], i['start'], i['end'], i['scale'], must, i['n']))
    kwargs = dict(verbose=False, max_procs=plan['max_procs'], perform_memory_check=plan.get('memcheck', True),
                  avoid_crashes=plan['attempts'][attempt].get('avoid_crashes', plan.get('avoid_crashes', True)))
    if attempt > 0 or not plan.get('first_force_restart', True):
        kwargs['force_restart'] = False
    if plan.get('postprocess'):
        kwargs['postprocess_func'] = post_fn
    study_dir = os.path.join(workdir, plan.get('dir_name', 'study'))
    if plan.get('dir_state') == 'empty' and attempt == 0:
        os.makedirs(study_dir, exist_ok=True)
    result = {'attempt': attempt}
    try:
        value = M.multiprocessing_run(study_dir, 'sim study', workload.study_fn, tuple(input_data), **kwargs)
        result['outcome'] = 'returned'
        result['value'] = normalise_value(value)
    except Exception as e:
        result['outcome'] = 'raised'
        result['error'] = '%s: %s' % (type(e).__name__, e)
    files = {}
    for root, dirs, fnames in os.walk(study_dir):
        for fn in fnames:
            p = os.path.join(root, fn)
            with open(p, 'rb') as f:
                files[os.path.relpath(p, study_dir)] = f.read()
    result['tree'] = tree_summary(files)
    result['executed'] = read_records(os.path.join(workdir, 'records'))
    with open(out_path, 'w') as f:
        json.dump(result, f)


if __name__ == '__main__':
    main()
