"""Baton-passing kernel: simulated processes are real threads, exactly one of which runs at a time.

A task gives up the baton only at a *seam call* (`Kernel.seam`) or when it blocks
(`Kernel.block_until`).  At every seam the kernel appends an event to the history, advances the
simulated clock, decides whether the process tree is killed here, and asks the schedule which
runnable task continues.  Simulated processes share nothing but the simulated file system and
the pool's queues, so interleaving at seam granularity covers every observable interleaving.
"""
import random
import threading


class SimKilled(BaseException):
    """Raised inside every task when the simulated process tree is killed (not an Exception on purpose)."""


class HarnessError(Exception):
    pass


class Task:
    __slots__ = ('name', 'index', 'thread', 'sem', 'state', 'pred', 'exc', 'result', 'fn')

    def __init__(self, name, index, fn):
        self.name = name
        self.index = index
        self.fn = fn
        self.thread = None
        self.sem = threading.Semaphore(0)
        self.state = 'runnable'   # runnable | blocked | done
        self.pred = None
        self.exc = None
        self.result = None


class Schedule:
    """Decides which runnable task continues.  Pure function of its spec and the call sequence."""

    def __init__(self, spec):
        self.mode = spec.get('mode', 'sequential')
        self.rng = random.Random(spec.get('seed', 0))
        self.sticky_num = spec.get('sticky', 0)      # out of 8: chance to keep the current task running
        self.starve = set(spec.get('starve', []))    # task indices that only run when nobody else can
        self.explicit = list(spec.get('choices', []))
        self.pos = 0
        self.n_choices = 0
        self.taken = []

    def choose(self, runnable, current):
        if len(runnable) == 1:
            return runnable[0]
        self.n_choices += 1
        if self.mode == 'sequential':
            pick = runnable[0]
        elif self.mode == 'explicit':
            v = self.explicit[self.pos] if self.pos < len(self.explicit) else 0
            self.pos += 1
            pick = runnable[v % len(runnable)]
        else:
            pool = [t for t in runnable if t.index not in self.starve] or runnable
            if current is not None and current in pool and self.rng.randrange(8) < self.sticky_num:
                pick = current
            else:
                pick = pool[self.rng.randrange(len(pool))]
        self.taken.append(pick.index)
        return pick


class Kernel:
    def __init__(self, sched_spec, kill_spec=None, step_budget=100000, tick=0.001, t0=1.7e9, trace_limit=4000):
        self.sched = Schedule(sched_spec or {})
        self.kill_spec = kill_spec
        self.kill_at_step = None
        if kill_spec and 'step' in kill_spec:
            self.kill_at_step = int(kill_spec['step'])
        self._after_count = 0
        self.step_budget = step_budget
        self.tick = tick
        self.now = t0
        self.t0 = t0
        self.step = 0
        self.events = []
        self.trace_limit = trace_limit
        self.tasks = []
        self.current = None
        self.killed = False
        self.kill_step = None
        self.kill_context = None
        self.budget_exceeded = False
        self.failed = None          # harness error text
        self.finished = threading.Event()
        self.over = False           # set when the attempt is over (finished or killed): late writes are dropped
        self.trace_files = ()       # file names of the code under test (line events there are counted)
        self.line_budget = 500_000
        self.lines = 0
        self.line_budget_exceeded = False
        self._lock = threading.Lock()

    # ---- tasks ----
    def spawn(self, name, fn):
        t = Task(name, len(self.tasks), fn)
        self.tasks.append(t)
        th = threading.Thread(target=self._task_main, args=(t,), name='sim-' + name, daemon=True)
        t.thread = th
        th.start()
        return t

    def _tracer(self):
        """Deterministic 'does not terminate' detector: count line events executed in the code under test."""
        files = self.trace_files
        kernel = self

        def local(frame, event, arg):
            if event == 'line':
                kernel.lines += 1
                if kernel.lines > kernel.line_budget:
                    kernel.line_budget_exceeded = True
                    kernel.kill_context = 'line budget exceeded in %s:%d' % (frame.f_code.co_name, frame.f_lineno)
                    kernel.kill_step = kernel.step
                    kernel._kill_all()
                    raise SimKilled()
            return local

        def tracer(frame, event, arg):
            if event == 'call' and frame.f_code.co_filename in files:
                return local
            return None
        return tracer

    def _task_main(self, t):
        t.sem.acquire()
        try:
            if self.killed or self.failed:
                raise SimKilled()
            if self.trace_files:
                import sys
                sys.settrace(self._tracer())
            t.result = t.fn()
        except SimKilled:
            t.exc = 'killed'
        except HarnessError as e:
            self._fail('HarnessError in task %s: %s' % (t.name, e))
            t.exc = e
        except BaseException as e:   # exception escaping the simulated process
            t.exc = e
        t.state = 'done'
        if self.killed or self.failed:
            self._maybe_finish()
            return
        nxt = self._choose(None)
        if nxt is None:
            if all(x.state == 'done' for x in self.tasks):
                self._maybe_finish()
            else:
                self._fail('deadlock: no runnable task; blocked=%s' % [x.name for x in self.tasks if x.state == 'blocked'])
            return
        self.current = nxt
        nxt.sem.release()

    def _maybe_finish(self):
        with self._lock:
            if all(x.state == 'done' for x in self.tasks):
                self.over = True
                self.finished.set()

    def _fail(self, text):
        if not self.failed:
            self.failed = text
        self._kill_all()

    def _kill_all(self):
        self.killed = True
        self.over = True
        for x in self.tasks:
            if x.state != 'done':
                x.sem.release()

    def _runnable(self):
        out = []
        for x in self.tasks:
            if x.state == 'runnable':
                out.append(x)
            elif x.state == 'blocked' and x.pred():
                out.append(x)
        return out

    def _choose(self, current):
        r = self._runnable()
        if not r:
            return None
        return self.sched.choose(r, current)

    def _switch(self, me, nxt):
        self.current = nxt
        nxt.sem.release()
        me.sem.acquire()
        if self.killed:
            raise SimKilled()

    def _me(self):
        t = self.current
        if t is None or threading.current_thread() is not t.thread:
            raise HarnessError('seam called from a thread that does not hold the baton')
        return t

    # ---- seams ----
    def seam(self, kind, detail='', dt=None):
        """Called by the running task *before* it performs the operation `kind`."""
        if self.killed:
            raise SimKilled()
        me = self._me()
        self.step += 1
        self.now += self.tick if dt is None else dt
        if len(self.events) < self.trace_limit:
            self.events.append((self.step, me.name, kind, detail))
        if self.step > self.step_budget:
            self.budget_exceeded = True
            self.kill_context = 'step budget exceeded'
            self.kill_step = self.step
            self._kill_all()
            raise SimKilled()
        if self.kill_at_step is not None and self.step >= self.kill_at_step:
            self.kill_step = self.step
            self.kill_context = '%s before %s %s' % (me.name, kind, detail)
            self._kill_all()
            raise SimKilled()
        ks = self.kill_spec
        if ks and 'before' in ks and not self.killed:
            b = ks['before']
            if kind == b['kind'] and str(detail).endswith(b.get('endswith', '')):
                self._after_count += 1
                if self._after_count >= b.get('nth', 1):
                    self.kill_step = self.step
                    self.kill_context = '%s before %s %s' % (me.name, kind, detail)
                    self._kill_all()
                    raise SimKilled()
        if ks and 'after' in ks and self.kill_at_step is None:
            a = ks['after']
            if kind == a['kind'] and str(detail).endswith(a.get('endswith', '')):
                self._after_count += 1
                if self._after_count >= a.get('nth', 1):
                    self.kill_at_step = self.step + 1 + ks.get('plus', 0)
        nxt = self._choose(me)
        if nxt is not me:
            self._switch(me, nxt)

    def note(self, kind, detail=''):
        """Record an event without a scheduling point (never draws, never blocks)."""
        if not self.over and len(self.events) < self.trace_limit:
            self.events.append((self.step, self.current.name if self.current else '-', kind, detail))

    def advance(self, seconds):
        self.now += seconds

    def block_until(self, pred, what=''):
        me = self._me()
        while not pred():
            if self.killed:
                raise SimKilled()
            me.state = 'blocked'
            me.pred = pred
            nxt = self._choose(None)
            if nxt is None:
                me.state = 'runnable'
                self._fail('deadlock: %s waits for %s and nobody can run' % (me.name, what))
                raise SimKilled()
            if nxt is me:
                break
            self._switch(me, nxt)
        me.state = 'runnable'
        me.pred = None

    # ---- driver side ----
    def run(self, main_fn, wall_cap_s=60.0):
        """Run main_fn as task 'parent' until every task is done or the tree is killed."""
        parent = self.spawn('parent', main_fn)
        self.current = parent
        parent.sem.release()
        if not self.finished.wait(wall_cap_s):
            self._fail('wall-clock cap of the attempt exceeded (harness problem, not a verdict)')
        # make sure every thread has unwound
        for t in self.tasks:
            t.thread.join(10.0)
            if t.thread.is_alive():
                self.failed = self.failed or ('task %s did not stop' % t.name)
        self.over = True
        return parent
