"""Confirm-real: the same semantic kill point is exercised (a) in simulation and (b) against real pathos processes that
are SIGKILLed as a group, each followed by a fault-free restart; the verdicts must agree.  Run on the current tree and on
an in-memory mutant that re-introduces 'marker before result file'.  A disagreement is a harness error."""
import copy
import json
import os
import shutil
import subprocess
import sys
import tempfile
from concurrent.futures import ThreadPoolExecutor

from simkit import envsetup
from . import workload

EVENTS = {
    'journal_created': {'after': {'kind': 'fs.open.w', 'endswith': 'tpy_mp.log', 'nth': 1}},
    'journal_header_written': {'after': {'kind': 'fs.write', 'endswith': 'tpy_mp.log', 'nth': 1}},
    'run_dir_created': {'after': {'kind': 'fs.makedirs', 'endswith': '', 'nth': 1}},
    'study_entered': {'after': {'kind': 'study.enter', 'endswith': '', 'nth': 1}},
    'result_torn': {'after': {'kind': 'fs.write', 'endswith': 'mp_results.npz', 'nth': 1}},
    'result_written': {'before': {'kind': 'fs.open.w', 'endswith': 'mp_success.log', 'nth': 1}},
    'marker_written': {'after': {'kind': 'fs.write', 'endswith': 'mp_success.log', 'nth': 1}},
}
MUTANT_EVENTS = ['marker_written', 'result_torn', 'run_dir_created']


def base_plan():
    return {
        'engine': 'mpstudy', 'seed': 0,
        'inputs': [{'name': 'alpha', 'nice': 'ALPHA', 'start': 0.0, 'end': 1.0, 'scale': 'linear', 'must': {'kind': 'list', 'vals': [0.25]}, 'n': 2},
                   {'name': 'visc', 'nice': 'VISC', 'start': 1.0, 'end': 3.0, 'scale': 'log', 'must': {'kind': 'tuple', 'vals': []}, 'n': 2}],
        'avoid_crashes': True, 'memcheck': False, 'verbose': False, 'arr_len': 40, 'bufsize': 8192, 'dir_state': 'empty',
        'listdir_seed': 3, 'tick': 0.001, 'case_seconds': 0.1, 'postprocess': False, 'permanent_fail': [], 'cpus': 16, 'max_procs': 4,
        'attempts': [{'kill': None, 'fail': [], 'sched': {'mode': 'seeded', 'seed': 11, 'sticky': 3}},
                     {'kill': None, 'fail': [], 'sched': {'mode': 'seeded', 'seed': 12, 'sticky': 3}}],
    }


def real_verdict(plan, event, mutant, cap_s=180):
    work = tempfile.mkdtemp(prefix='rk-', dir=os.environ.get('TMPDIR'))
    try:
        plan_path = os.path.join(work, 'plan.json')
        with open(plan_path, 'w') as f:
            json.dump(plan, f)
        base = [sys.executable, '-m', 'sims.mpstudy.realkill', plan_path]
        extra = [mutant] if mutant else []
        p = subprocess.run(base + ['0', work, os.path.join(work, 'out0.json'), event] + extra, cwd=envsetup.VERIF,
                           capture_output=True, text=True, timeout=cap_s, start_new_session=True)
        killed = (p.returncode == -9)
        if not killed:
            return {'verdict': 'harness', 'detail': 'attempt 0 was not killed at %s (rc=%s) %s' % (event, p.returncode, p.stderr[-400:])}
        out1 = os.path.join(work, 'out1.json')
        p = subprocess.run(base + ['1', work, out1, 'none'] + extra, cwd=envsetup.VERIF, capture_output=True, text=True,
                           timeout=cap_s, start_new_session=True)
        if not os.path.exists(out1):
            return {'verdict': 'harness', 'detail': 'restart produced no output rc=%s %s' % (p.returncode, p.stderr[-400:])}
        with open(out1) as f:
            r = json.load(f)
        if r['outcome'] == 'raised':
            return {'verdict': 'raised', 'type': r['error'].split(':')[0], 'detail': r['error'][:160]}
        ref = workload.Reference(plan)
        want = []
        for c in range(ref.total):
            res = workload.f_ref(ref.values_of_case[c], plan['arr_len'])
            want.append([c, list(ref.index_of_case[c]), {k: __import__('numpy').asarray(res[k]).tolist() for k in sorted(res)}])
        if r['value'] == want:
            return {'verdict': 'ok', 'reexecuted_in_restart': sum(1 for c, a in r['executed'] if a == 1)}
        return {'verdict': 'wrong-results', 'detail': str(r['value'])[:200]}
    finally:
        shutil.rmtree(work, ignore_errors=True)


def sim_verdict(engine, plan, event, mutant):
    p = copy.deepcopy(plan)
    p['attempts'][0]['kill'] = copy.deepcopy(EVENTS[event])
    if mutant:
        from simkit.mutate import Mutant
        from .mutants import MOD, MUTANTS
        spec = [m for m in MUTANTS if m[0] == mutant][0]
        with Mutant(MOD, spec[1], spec[2], spec[0]):
            r = engine.run_plan(p)
    else:
        r = engine.run_plan(p)
    fired = r['counters'].get('fault:kill_fired', 0)
    if not fired:
        return {'verdict': 'harness', 'detail': 'simulated kill did not fire'}
    live = [v for v in r['violations'] if v['clause'] == 'liveness']
    if live:
        return {'verdict': 'raised', 'type': live[0]['signature'].get('exception'), 'detail': live[0]['message'][:160]}
    if r['violations']:
        return {'verdict': 'wrong-results', 'detail': r['violations'][0]['message'][:160]}
    return {'verdict': 'ok'}


def run(engine):
    plan = base_plan()
    jobs = [(ev, None) for ev in EVENTS] + [(ev, 'marker-before-result') for ev in MUTANT_EVENTS]
    with ThreadPoolExecutor(max_workers=4) as ex:
        reals = list(ex.map(lambda j: real_verdict(plan, j[0], j[1]), jobs))
    rows = []
    errors = []
    for (ev, mut), real in zip(jobs, reals):
        sim = sim_verdict(engine, plan, ev, mut)
        agree = (real['verdict'] == sim['verdict']) and real['verdict'] != 'harness'
        rows.append({'event': ev, 'tree': mut or 'current', 'real': real, 'sim': sim, 'agree': agree})
        if not agree:
            errors.append('confirm-real: %s on %s: real=%s sim=%s' % (ev, mut or 'current tree', real, sim))
    return rows, errors
