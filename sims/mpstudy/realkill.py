"""Confirm-real mode: kill REAL processes at a semantic bookkeeping point, restart for real, judge with the same oracle.

usage: python -m sims.mpstudy.realkill <plan.json> <attempt index> <workdir> <out.json> <event> [mutant label]

The module globals `open`, `os`, `np` of the code under test are wrapped (real file system underneath) so that when the
chosen event has just happened in ANY process of the study, the whole process group is SIGKILLed.  The caller starts this
program in its own session, so the kill takes the study's parent and all pool workers and nothing else.
Events: journal_created, journal_header_written, run_dir_created, study_entered, result_torn, result_written,
marker_written.  Used to check that the simulated crash model and the real stack agree on what a kill at these points
does to a later restart (both on the current tree and on an in-memory mutant of it); not a registered check.
"""
import io
import json
import os
import signal
import sys

import numpy as real_np


def die():
    os.killpg(os.getpgrp(), signal.SIGKILL)


class Switch:
    def __init__(self, event):
        self.event = event

    def hit(self, event):
        if event == self.event:
            die()


class FileProxy:
    def __init__(self, f, on_close):
        self._f = f
        self._on_close = on_close

    def __getattr__(self, name):
        return getattr(self._f, name)

    def __enter__(self):
        return self

    def __exit__(self, *exc):
        self.close()
        return False

    def __iter__(self):
        return iter(self._f)

    def close(self):
        self._f.close()
        if self._on_close:
            cb, self._on_close = self._on_close, None
            cb()


def install(M, switch):
    real_open = open

    def k_open(path, mode='r', *a, **k):
        f = real_open(path, mode, *a, **k)
        p = str(path)
        if 'w' in mode and p.endswith('tpy_mp.log'):
            switch.hit('journal_created')
            return FileProxy(f, lambda: switch.hit('journal_header_written'))
        if 'w' in mode and p.endswith('mp_success.log'):
            return FileProxy(f, lambda: switch.hit('marker_written'))
        return f

    class KOS:
        def __getattr__(self, name):
            return getattr(os, name)

        def makedirs(self, path, *a, **k):
            os.makedirs(path, *a, **k)
            if '_run_' in str(path):
                switch.hit('run_dir_created')

    class KNP:
        def __getattr__(self, name):
            return getattr(real_np, name)

        def savez(self, file, *args, **kwds):
            if switch.event == 'result_torn':
                buf = io.BytesIO()
                real_np.savez(buf, *args, **kwds)
                data = buf.getvalue()
                path = str(file) if str(file).endswith('.npz') else str(file) + '.npz'
                with real_open(path, 'wb') as f:
                    f.write(data[:len(data) // 2])
                    f.flush()
                    os.fsync(f.fileno())
                switch.hit('result_torn')
            real_np.savez(file, *args, **kwds)
            switch.hit('result_written')

    M.open = k_open
    M.os = KOS()
    M.np = KNP()


def main():
    plan_path, attempt, workdir, out_path, event = sys.argv[1], int(sys.argv[2]), sys.argv[3], sys.argv[4], sys.argv[5]
    mutant = sys.argv[6] if len(sys.argv) > 6 else None
    with open(plan_path) as f:
        plan = json.load(f)
    from sims.mpstudy import workload
    from sims.mpstudy.realrun import FileRecords, normalise_value, read_records
    import TidalPy.utilities.multiprocessing.multiprocessing as M
    ctx_mut = None
    if mutant:
        from simkit.mutate import Mutant
        from sims.mpstudy.mutants import MOD, MUTANTS
        spec = [m for m in MUTANTS if m[0] == mutant][0]
        ctx_mut = Mutant(MOD, spec[1], spec[2], spec[0])
        ctx_mut.__enter__()
    ref = workload.Reference(plan)
    ctx = workload.RunContext(plan, ref, kernel=None, attempt=attempt, record_sink=FileRecords(os.path.join(workdir, 'records')))
    ctx.post_calls = []
    switch = Switch(event if event != 'none' else '-')
    ctx.on_study_enter = lambda: switch.hit('study_entered')
    workload.CURRENT = ctx
    if event != 'none':
        install(M, switch)
    input_data = []
    for i in plan['inputs']:
        must = i['must']['vals']
        must = tuple(must) if i['must']['kind'] == 'tuple' else list(must)
        input_data.append(M.MultiprocessingInput(i['name'], i['nice'], i['start'], i['end'], i['scale'], must, i['n']))
    kwargs = dict(verbose=False, max_procs=plan['max_procs'], perform_memory_check=False, avoid_crashes=plan.get('avoid_crashes', True))
    if attempt > 0:
        kwargs['force_restart'] = False
    study_dir = os.path.join(workdir, plan.get('dir_name', 'study'))
    if attempt == 0:
        os.makedirs(study_dir, exist_ok=True)
    result = {'attempt': attempt}
    try:
        value = M.multiprocessing_run(study_dir, 'sim study', workload.study_fn, tuple(input_data), **kwargs)
        result['outcome'] = 'returned'
        result['value'] = normalise_value(value)
    except Exception as e:
        result['outcome'] = 'raised'
        result['error'] = '%s: %s' % (type(e).__name__, e)
    result['executed'] = read_records(os.path.join(workdir, 'records'))
    with open(out_path, 'w') as f:
        json.dump(result, f)


if __name__ == '__main__':
    main()
