"""Workload, fault-plan generator, study function and sequential reference model for C18."""
import itertools

import numpy as np

from simkit.draw import Draw

# The study function is looked up by reference when dill pickles the task closure, so it must be a
# module-level function; per-run state lives in CURRENT (one simulation at a time per process).
CURRENT = None

NAME_POOL = ['alpha', 'beta_x', 'gamma', 'visc', 'period', 'n_run_3']   # the last one looks like a run directory once saved as <name>.npy


class RunContext:
    """What the study function needs to know about the running simulation (or the real run)."""

    def __init__(self, plan, ref, kernel=None, attempt=0, record_sink=None):
        self.plan = plan
        self.ref = ref
        self.kernel = kernel
        self.attempt = attempt
        self.records = [] if record_sink is None else record_sink   # (case, attempt, step)
        self.unknown_inputs = []

    def failing_now(self, case):
        a = self.plan['attempts'][self.attempt]
        return case in a.get('fail', []) or case in self.plan.get('permanent_fail', [])


def study_fn(run_dir, *args):
    """The user's study function: a pure function of the case inputs (plus injected failures)."""
    ctx = CURRENT
    nd = len(args) // 2
    values = tuple(float(v) for v in args[:nd])
    names = tuple(args[nd:])
    k = ctx.kernel
    if k is not None:
        k.seam('study.enter', str(run_dir)[-40:])
    case = ctx.ref.case_of(values, names)
    if case is None:
        ctx.unknown_inputs.append((values, names))
    step = k.step if k is not None else 0
    ctx.records.append((case, ctx.attempt, step))
    if k is None and getattr(ctx, 'on_study_enter', None) is not None:
        ctx.on_study_enter()
    if k is not None and hasattr(ctx, 'last_case'):
        ctx.last_case[k.current.name] = case
    if k is not None:
        k.advance(ctx.plan.get('case_seconds', 1.0))
    if case is not None and ctx.failing_now(case):
        raise RuntimeError('injected failure of case %d' % case)
    if k is not None:
        k.seam('study.exit', str(run_dir)[-40:])
    return f_ref(values, ctx.plan['arr_len'])


def f_ref(values, arr_len):
    """Expected result of one case: depends on every input value and on their order."""
    s = 0.0
    for i, v in enumerate(values):
        s += (i + 1) * v
    arr = np.arange(arr_len, dtype=np.float64) * 0.5 + s
    return {'scalar': np.float64(s), 'arr': arr}


class Reference:
    """Sequential reference model of the grid: built independently from the plan's inputs."""

    def __init__(self, plan):
        self.names = tuple(i['name'] for i in plan['inputs'])
        self.arrays = []
        for i in plan['inputs']:
            if i['scale'] == 'log':
                arr = np.logspace(i['start'], i['end'], i['n'])
            else:
                arr = np.linspace(i['start'], i['end'], i['n'])
            must = list(i['must']['vals'])
            if must:
                m = np.asarray(must, dtype=float)
                if i['scale'] == 'log':
                    m = 10 ** m
                arr = np.unique(np.concatenate((arr, m)))
            self.arrays.append(arr)
        self.shape = tuple(len(a) for a in self.arrays)
        self.total = int(np.prod(self.shape)) if self.shape else 1
        self.index_of_case = [tuple(int(x) for x in idx) for idx in itertools.product(*[range(n) for n in self.shape])]
        self.values_of_case = [tuple(float(self.arrays[d][ix]) for d, ix in enumerate(idx)) for idx in self.index_of_case]
        self._lookup = {v: c for c, v in enumerate(self.values_of_case)}

    def case_of(self, values, names=None):
        if names is not None and tuple(names) != self.names:
            return None
        return self._lookup.get(tuple(values))


# --------------------------------------------------------------------------------------------------
# plan generation
# --------------------------------------------------------------------------------------------------
KILL_ANCHORS = [
    # (kind, path suffix) - bookkeeping steps the property names; the kill lands `plus` steps after the nth match
    ('fs.makedirs', ''),
    ('study.exit', ''),
    ('fs.open.w', 'mp_success.log'),
    ('fs.write', 'mp_success.log'),
    ('fs.open.a', 'tpy_mp.log'),
    ('fs.write', 'tpy_mp.log'),
    ('fs.open.w', 'mp_results.npz'),
    ('fs.write', 'mp_results.npz'),
    ('pool.put', ''),
    ('fs.open.w', 'tpy_mp.log'),
    ('fs.open.w', '.npy'),
    ('fs.write', '.npy'),
    ('fs.listdir', ''),
    ('fs.open.r', 'tpy_mp.log'),
    ('fs.open.r', 'mp_results.npz'),
    ('pool.collect', ''),
    ('pool.submit', ''),
    ('study.enter', ''),
    ('fs.rename', ''),
    ('fs.isfile', 'mp_success.log'),
]


def gen_inputs(d: Draw, max_cases):
    long_axis = max_cases >= 28          # a grid with a two-digit index along one axis (directory names stop sorting numerically)
    ndim = d.weighted([(1, 3), (2, 4), (3, 2)]) if not long_axis else d.weighted([(1, 1), (2, 2)])
    inputs = []
    names = d.shuffled(NAME_POOL)[:ndim]
    long_dim = d.below(ndim) if long_axis else -1
    for di in range(ndim):
        scale = d.pick(['linear', 'linear', 'log'])
        if scale == 'log':
            start, end = d.pick([(-2.0, 1.0), (0.0, 3.0), (-1.0, 0.0), (2.0, 5.0)])
        else:
            start, end = d.pick([(0.0, 1.0), (-1.0, 1.0), (10.0, 50.0), (0.1, 0.9), (273.15, 1800.0),
                                 (1e-05, 3e-05), (0.30000000000000004, 0.9), (-1e+22, 1e+22)])   # repr round trips in the journal
        n = d.between(1, 4)
        if long_axis:
            n = d.between(11, 14) if di == long_dim else d.between(1, 2)
        mkind = d.weighted([('empty', 3), ('list', 3), ('tuple', 3)])
        vals = []
        if mkind != 'empty':
            grid = np.linspace(start, end, n)
            for _ in range(d.between(1, 2)):
                c = d.below(3)
                if c == 0:
                    vals.append(float(grid[d.below(len(grid))]))          # on the grid: must not create a second case
                elif c == 1:
                    vals.append(float(start + (end - start) * d.pick([0.25, 0.5, 0.75, 0.3])))
                else:
                    vals.append(float(end + (end - start) * d.pick([0.5, 1.0])))   # outside the range
        inputs.append({'name': names[di], 'nice': names[di].upper() + ' [u]', 'start': start, 'end': end,
                       'scale': scale, 'must': {'kind': mkind, 'vals': vals}, 'n': n})
    # keep the study small: shrink the largest dimension until the case count fits
    while True:
        ref = Reference({'inputs': inputs})
        if ref.total <= max_cases:
            break
        big = max(range(ndim), key=lambda i: ref.shape[i])
        if inputs[big]['n'] > 1:
            inputs[big]['n'] -= 1
        elif inputs[big]['must']['vals']:
            inputs[big]['must']['vals'].pop()
            if not inputs[big]['must']['vals']:
                inputs[big]['must']['kind'] = 'empty'
        else:
            break
    return inputs


def estimate_steps(plan, ref):
    per_case = 14 + 4 + max(0, (plan['arr_len'] * 8) // max(plan['bufsize'], 1)) * 2
    return 10 + 4 * len(plan['inputs']) + ref.total * per_case


def gen_plan(seed: int, tier: str):
    d = Draw(seed)
    max_cases = d.weighted([(4, 3), (8, 3), (12, 3), (24, 3), (30, 2)])
    inputs = gen_inputs(d, max_cases)
    plan = {
        'engine': 'mpstudy', 'seed': seed,
        'inputs': inputs,
        'avoid_crashes': d.chance(2, 3),
        'memcheck': d.chance(1, 2),
        'verbose': d.chance(1, 2),
        'arr_len': d.pick([1, 3, 40, 1100, 3000]),
        'bufsize': d.weighted([(8192, 5), (4096, 1), (512, 2), (64, 1)]),
        'dir_state': d.pick(['absent', 'empty', 'parent_absent']),
        # study directory names users really choose: spaces, brackets, glob and regex metacharacters, non-ASCII
        'dir_name': d.weighted([('study', 6), ('io [ecc-visc]', 1), ('run[3]', 1), ('results (v2) 2024-05-01', 1), ('x*y?', 1),
                                ('Étude_β', 1), ('a+b.c', 1)]),
        'listdir_seed': d.below(1000),
        'tick': d.pick([0.001, 0.01, 1.0]),
        'case_seconds': d.pick([0.1, 5.0, 600.0, 3600.0, 40000.0]),
        'postprocess': d.chance(1, 4),
        'permanent_fail': [],
        'attempts': [],
    }
    # pool size 4..16: either given explicitly or derived as 3/4 of the cpu count
    procs = d.between(4, 16)
    if d.chance(1, 2):
        plan['cpus'] = d.pick([p for p in range(6, 23) if int(p * 0.75) == procs] or [procs * 2])
        plan['max_procs'] = None
    else:
        plan['cpus'] = procs + d.between(0, 8)
        plan['max_procs'] = procs
    ref = Reference(plan)
    total = ref.total
    est = estimate_steps(plan, ref)

    mode = d.weighted([('clean', 1), ('faulty', 9), ('rerun', 1)])
    # 'rerun': the study completed and is simply called again on its directory (every case must come back from disk)
    n_attempts = 1 if mode == 'clean' else 2 if mode == 'rerun' else d.between(2, 4)
    plan['first_force_restart'] = not d.chance(1, 5)      # the first call may itself be made with force_restart=False
    if plan['avoid_crashes'] and mode == 'faulty' and d.chance(1, 4):
        plan['permanent_fail'] = sorted(set(d.below(total) for _ in range(d.between(1, 2))))
    for a in range(n_attempts):
        last = (a == n_attempts - 1)
        att = {'kill': None, 'fail': [],
               'sched': {'mode': d.weighted([('seeded', 6), ('sequential', 1)]), 'seed': d.below(1 << 30),
                         'sticky': d.pick([0, 2, 5, 7])}}
        if d.chance(1, 4):
            att['sched']['starve'] = [d.between(1, procs)]
        if not last and mode != 'rerun':
            kinds = d.weighted([('kill', 5), ('fail', 2), ('both', 2)])
            if kinds in ('kill', 'both'):
                if d.chance(1, 2):
                    att['kill'] = {'step': d.between(1, max(2, int(est * 1.1)))}
                else:
                    kind, suffix = d.pick(KILL_ANCHORS)
                    att['kill'] = {'after': {'kind': kind, 'endswith': suffix, 'nth': d.between(1, max(1, total))},
                                   'plus': d.weighted([(0, 6), (1, 2), (2, 1)])}
            if kinds in ('fail', 'both'):
                att['fail'] = sorted(set(d.below(total) for _ in range(d.between(1, 3))))
                if d.chance(1, 8):
                    att['fail'] = list(range(total))          # every case of this attempt raises
            if d.chance(1, 5):
                att['avoid_crashes'] = not plan['avoid_crashes']   # the user changed the flag between calls
        plan['attempts'].append(att)
    return plan


def shrink_candidates(plan):
    """Simpler variants of a plan, most aggressive first."""
    import copy
    from simkit.shrink import lower_ints
    # fewer attempts (never drop the final, fault-free one)
    n = len(plan['attempts'])
    for i in range(n - 1):
        new = copy.deepcopy(plan)
        del new['attempts'][i]
        yield new
    # drop faults
    for i, a in enumerate(plan['attempts']):
        if a.get('kill'):
            new = copy.deepcopy(plan)
            new['attempts'][i]['kill'] = None
            yield new
        for c in a.get('fail', []):
            new = copy.deepcopy(plan)
            new['attempts'][i]['fail'] = [x for x in a['fail'] if x != c]
            yield new
    for c in plan.get('permanent_fail', []):
        new = copy.deepcopy(plan)
        new['permanent_fail'] = [x for x in plan['permanent_fail'] if x != c]
        yield new
    # fewer dimensions / grid points / must-include values
    if len(plan['inputs']) > 1:
        for i in range(len(plan['inputs'])):
            new = copy.deepcopy(plan)
            del new['inputs'][i]
            _clip_cases(new)
            yield new
    for i, inp in enumerate(plan['inputs']):
        for v in lower_ints(inp['n'], 1):
            new = copy.deepcopy(plan)
            new['inputs'][i]['n'] = v
            _clip_cases(new)
            yield new
        if inp['must']['vals']:
            for j in range(len(inp['must']['vals'])):
                new = copy.deepcopy(plan)
                del new['inputs'][i]['must']['vals'][j]
                if not new['inputs'][i]['must']['vals']:
                    new['inputs'][i]['must']['kind'] = 'empty'
                _clip_cases(new)
                yield new
        if inp['must']['kind'] == 'tuple':
            new = copy.deepcopy(plan)
            new['inputs'][i]['must']['kind'] = 'list'
            yield new
        if inp['scale'] == 'log':
            new = copy.deepcopy(plan)
            new['inputs'][i]['scale'] = 'linear'
            yield new
    # sequential schedules, no starvation
    for i, a in enumerate(plan['attempts']):
        if a['sched'].get('mode') != 'sequential' or a['sched'].get('starve'):
            new = copy.deepcopy(plan)
            new['attempts'][i]['sched'] = {'mode': 'sequential'}
            yield new
    # plain configuration
    for key, plain in (('arr_len', 1), ('bufsize', 8192), ('postprocess', False), ('verbose', False),
                       ('dir_state', 'absent'), ('dir_name', 'study'), ('tick', 0.001), ('case_seconds', 0.1), ('memcheck', False),
                       ('avoid_crashes', True), ('listdir_seed', 0)):
        if plan.get(key) != plain:
            new = copy.deepcopy(plan)
            new[key] = plain
            yield new
    if plan.get('max_procs') != 4:
        new = copy.deepcopy(plan)
        new['max_procs'] = 4
        new['cpus'] = 8
        yield new
    # earlier kill steps / lower nth
    for i, a in enumerate(plan['attempts']):
        kspec = a.get('kill')
        if kspec and 'step' in kspec:
            for v in lower_ints(kspec['step'], 1):
                new = copy.deepcopy(plan)
                new['attempts'][i]['kill'] = {'step': v}
                yield new
        if kspec and 'after' in kspec:
            for v in lower_ints(kspec['after'].get('nth', 1), 1):
                new = copy.deepcopy(plan)
                new['attempts'][i]['kill']['after']['nth'] = v
                yield new
            if kspec.get('plus'):
                new = copy.deepcopy(plan)
                new['attempts'][i]['kill']['plus'] = 0
                yield new


def _clip_cases(plan):
    """After a structural simplification case numbers in fault lists may be out of range."""
    total = Reference(plan).total
    for a in plan['attempts']:
        a['fail'] = sorted(set(c for c in a.get('fail', []) if c < total))
    plan['permanent_fail'] = sorted(set(c for c in plan.get('permanent_fail', []) if c < total))
