"""In-memory file system with a user-space-buffer / written-data split, plus the `os`, `open` and
`np` stand-ins that are installed as module globals of the code under test.

Crash model (DESIGN 3.1): the whole process tree is killed.  Every raw write that was issued
survives, every byte still sitting in a Python-level buffer is lost, nothing is reordered.
File objects are *real* io.BufferedWriter / BufferedRandom / TextIOWrapper instances stacked on
SimRaw, so data reaches the simulated disk exactly when CPython would issue write(2).
"""
import io
import posixpath
import random

import numpy as real_np

from .kernel import HarnessError, SimKilled


class SimFS:
    def __init__(self, bufsize=8192, listdir_seed=0):
        self.files = {}          # path -> bytearray
        self.dirs = {'/'}
        self.bufsize = bufsize
        self.listdir_seed = listdir_seed
        self.kernel = None       # the kernel of the running attempt
        self.n_raw_writes = 0

    # -- helpers --
    @staticmethod
    def norm(path):
        path = str(path)
        if not path.startswith('/'):
            path = '/cwd/' + path
        return posixpath.normpath(path)

    def _seam(self, kind, detail=''):
        k = self.kernel
        if k is not None and not k.over:
            k.seam(kind, detail)

    def mkdirs_raw(self, path):
        path = self.norm(path)
        parts = path.strip('/').split('/')
        cur = ''
        for p in parts:
            cur += '/' + p
            self.dirs.add(cur)

    # -- queries (each one is a seam: another process may run in between) --
    def isdir(self, path):
        self._seam('fs.isdir', short(path))
        return self.norm(path) in self.dirs

    def isfile(self, path):
        self._seam('fs.isfile', short(path))
        return self.norm(path) in self.files

    def exists(self, path):
        self._seam('fs.exists', short(path))
        p = self.norm(path)
        return p in self.files or p in self.dirs

    def getsize(self, path):
        self._seam('fs.getsize', short(path))
        p = self.norm(path)
        if p in self.files:
            return len(self.files[p])
        if p in self.dirs:
            return 4096
        raise FileNotFoundError(2, 'No such file or directory', str(path))

    def makedirs(self, path, mode=0o777, exist_ok=False):
        self._seam('fs.makedirs', short(path))
        p = self.norm(path)
        if p in self.files:
            raise FileExistsError(17, 'File exists', str(path))
        if p in self.dirs:
            if exist_ok:
                return
            raise FileExistsError(17, 'File exists', str(path))
        self.mkdirs_raw(p)

    def mkdir(self, path, mode=0o777):
        self._seam('fs.mkdir', short(path))
        p = self.norm(path)
        if p in self.dirs or p in self.files:
            raise FileExistsError(17, 'File exists', str(path))
        if posixpath.dirname(p) not in self.dirs:
            raise FileNotFoundError(2, 'No such file or directory', str(path))
        self.dirs.add(p)

    def listdir(self, path='.'):
        self._seam('fs.listdir', short(path))
        p = self.norm(path)
        if p not in self.dirs:
            if p in self.files:
                raise NotADirectoryError(20, 'Not a directory', str(path))
            raise FileNotFoundError(2, 'No such file or directory', str(path))
        pre = p.rstrip('/') + '/'
        names = set()
        for q in list(self.files) + list(self.dirs):
            if q.startswith(pre) and q != p:
                names.add(q[len(pre):].split('/')[0])
        names = sorted(names)
        random.Random(self.listdir_seed * 1000003 + len(names)).shuffle(names)   # directory order is arbitrary
        return names

    def remove(self, path):
        self._seam('fs.remove', short(path))
        p = self.norm(path)
        if p not in self.files:
            if p in self.dirs:
                raise IsADirectoryError(21, 'Is a directory', str(path))
            raise FileNotFoundError(2, 'No such file or directory', str(path))
        del self.files[p]

    def rmdir(self, path):
        self._seam('fs.rmdir', short(path))
        p = self.norm(path)
        if p not in self.dirs:
            raise FileNotFoundError(2, 'No such file or directory', str(path))
        pre = p + '/'
        if any(q.startswith(pre) for q in list(self.files) + list(self.dirs)):
            raise OSError(39, 'Directory not empty', str(path))
        self.dirs.discard(p)

    def rename(self, src, dst):
        self._seam('fs.rename', short(src) + '->' + short(dst))
        s, d = self.norm(src), self.norm(dst)
        if s in self.files:
            if d in self.dirs:
                raise IsADirectoryError(21, 'Is a directory', str(dst))
            if posixpath.dirname(d) not in self.dirs:
                raise FileNotFoundError(2, 'No such file or directory', str(dst))
            self.files[d] = self.files.pop(s)      # atomic replace, as rename(2)
        elif s in self.dirs:
            if d in self.files:
                raise NotADirectoryError(20, 'Not a directory', str(dst))
            pre = s + '/'
            for q in list(self.files):
                if q.startswith(pre):
                    self.files[d + '/' + q[len(pre):]] = self.files.pop(q)
            for q in list(self.dirs):
                if q == s or q.startswith(pre):
                    self.dirs.discard(q)
                    self.dirs.add(d + q[len(s):])
        else:
            raise FileNotFoundError(2, 'No such file or directory', str(src))

    def rmtree(self, path):
        self._seam('fs.rmtree', short(path))
        p = self.norm(path)
        pre = p + '/'
        for q in list(self.files):
            if q.startswith(pre):
                del self.files[q]
        for q in list(self.dirs):
            if q == p or q.startswith(pre):
                self.dirs.discard(q)

    def read_bytes(self, path, kind='fs.open.r'):
        self._seam(kind, short(path))
        p = self.norm(path)
        if p in self.dirs:
            raise IsADirectoryError(21, 'Is a directory', str(path))
        if p not in self.files:
            raise FileNotFoundError(2, 'No such file or directory', str(path))
        return bytes(self.files[p])

    # -- open --
    def open(self, file, mode='r', buffering=-1, encoding=None, errors=None, newline=None, closefd=True, opener=None):
        if not isinstance(file, (str, bytes)) and not hasattr(file, '__fspath__'):
            raise HarnessError('open() of a non-path object is not simulated: %r' % (file,))
        path = str(file.__fspath__() if hasattr(file, '__fspath__') else file)
        binary = 'b' in mode
        m = mode.replace('b', '').replace('t', '')
        plus = '+' in m
        m0 = m.replace('+', '')
        if m0 == 'r' and not plus:
            data = self.read_bytes(path)
            raw = io.BytesIO(data)
            if binary:
                return raw
            return io.TextIOWrapper(raw, encoding=encoding or 'utf-8', errors=errors, newline=newline)
        if m0 not in ('r', 'w', 'a', 'x'):
            raise ValueError('invalid mode: %r' % mode)
        raw = SimRaw(self, path, m0, plus)
        bufsize = self.bufsize if buffering in (-1, None) else buffering
        if binary and buffering == 0:
            return raw
        if bufsize <= 1:
            bufsize = self.bufsize
        buffered = io.BufferedRandom(raw, bufsize) if plus else io.BufferedWriter(raw, bufsize)
        if binary:
            return buffered
        return io.TextIOWrapper(buffered, encoding=encoding or 'utf-8', errors=errors, newline=newline,
                                line_buffering=(buffering == 1))

    # -- snapshots for the oracle (never a seam) --
    def image(self):
        return {p: bytes(b) for p, b in self.files.items()}, set(self.dirs)

    def image_digest(self):
        import hashlib
        h = hashlib.sha256()
        for p in sorted(self.files):
            h.update(p.encode())
            h.update(b'\0')
            h.update(bytes(self.files[p]))
            h.update(b'\1')
        for d in sorted(self.dirs):
            h.update(d.encode())
            h.update(b'\2')
        return h.hexdigest()[:16]


def short(path):
    s = str(path)
    return s[-60:]


class SimRaw(io.RawIOBase):
    """Unbuffered simulated file.  Each write() is one seam step and one atomic pwrite/append."""

    def __init__(self, fs, path, m0, plus):
        super().__init__()
        self.fs = fs
        self.kernel = fs.kernel
        self.path = fs.norm(path)
        self.name = str(path)
        self.mode = m0 + ('+' if plus else '')
        self._append = (m0 == 'a')
        self._readable = plus or m0 == 'r'
        self._writable = m0 in ('w', 'a', 'x') or plus
        fs._seam('fs.open.' + m0, short(path))
        p = self.path
        if p in fs.dirs:
            raise IsADirectoryError(21, 'Is a directory', str(path))
        if posixpath.dirname(p) not in fs.dirs:
            raise FileNotFoundError(2, 'No such file or directory', str(path))
        if m0 == 'x' and p in fs.files:
            raise FileExistsError(17, 'File exists', str(path))
        if m0 == 'r' and p not in fs.files:
            raise FileNotFoundError(2, 'No such file or directory', str(path))
        if m0 in ('w', 'x') or p not in fs.files:
            fs.files[p] = bytearray()          # create / truncate happens at open(2)
        self.pos = len(fs.files[p]) if self._append else 0

    def _dead(self):
        k = self.kernel
        return k is None or k.over or k.killed

    def readable(self):
        return self._readable

    def writable(self):
        return self._writable

    def seekable(self):
        return True

    def tell(self):
        return self.pos

    def seek(self, offset, whence=0):
        buf = self.fs.files.get(self.path, b'')
        if whence == 0:
            self.pos = offset
        elif whence == 1:
            self.pos += offset
        else:
            self.pos = len(buf) + offset
        if self.pos < 0:
            self.pos = 0
        return self.pos

    def readinto(self, b):
        buf = self.fs.files.get(self.path, b'')
        data = bytes(buf[self.pos:self.pos + len(b)])
        b[:len(data)] = data
        self.pos += len(data)
        return len(data)

    def truncate(self, size=None):
        if self._dead():
            return size or 0
        self.fs._seam('fs.truncate', short(self.name))
        buf = self.fs.files.setdefault(self.path, bytearray())
        size = self.pos if size is None else size
        del buf[size:]
        if len(buf) < size:
            buf.extend(b'\0' * (size - len(buf)))
        return size

    def write(self, b):
        n = len(b)
        if self._dead():
            return n                       # the process is gone: buffered data never reaches the disk
        self.fs._seam('fs.write', short(self.name))
        data = bytes(b)
        buf = self.fs.files.get(self.path)
        if buf is None:                    # unlinked while open: writes go nowhere visible
            return n
        if self._append:
            self.pos = len(buf)
        if self.pos > len(buf):
            buf.extend(b'\0' * (self.pos - len(buf)))
        buf[self.pos:self.pos + n] = data
        self.pos += n
        self.fs.n_raw_writes += 1
        return n

    _fd_ok = True

    def fileno(self):
        if not self._fd_ok:
            # numpy asks for a descriptor to decide whether it may bypass the file object (ndarray.tofile); it must not
            raise io.UnsupportedOperation('simulated file has no descriptor')
        # a token the simulated os.fsync / os.fdatasync accept (every issued raw write is already "on disk" in the crash
        # model, so syncing is a scheduling point and nothing else)
        return 100000 + (__import__("zlib").crc32(self.path.encode()) % 100000)

    def isatty(self):
        return False


class _SimOSPath:
    def __init__(self, fs):
        self._fs = fs
        for name in ('join', 'basename', 'dirname', 'split', 'splitext', 'normpath', 'sep', 'isabs', 'relpath',
                     'commonpath', 'commonprefix', 'expanduser', 'expandvars', 'normcase'):
            setattr(self, name, getattr(posixpath, name))

    def abspath(self, p):
        return self._fs.norm(p)

    realpath = abspath

    def isdir(self, p):
        return self._fs.isdir(p)

    def isfile(self, p):
        return self._fs.isfile(p)

    def exists(self, p):
        return self._fs.exists(p)

    lexists = exists

    def getsize(self, p):
        return self._fs.getsize(p)

    def getmtime(self, p):
        self._fs.exists(p)
        return self._fs.kernel.now if self._fs.kernel else 0.0

    def __getattr__(self, name):
        raise HarnessError('os.path.%s is not simulated' % name)


class SimOS:
    """Stand-in for the `os` module global of the code under test."""
    sep = '/'
    linesep = '\n'
    name = 'posix'
    curdir = '.'
    pardir = '..'
    extsep = '.'
    PathLike = __import__('os').PathLike
    O_RDONLY = 0

    def __init__(self, fs):
        self._fs = fs
        self.path = _SimOSPath(fs)
        self.environ = dict(__import__('os').environ)

    def makedirs(self, name, mode=0o777, exist_ok=False):
        return self._fs.makedirs(name, mode, exist_ok)

    def mkdir(self, path, mode=0o777):
        return self._fs.mkdir(path, mode)

    def listdir(self, path='.'):
        return self._fs.listdir(path)

    def remove(self, path):
        return self._fs.remove(path)

    unlink = remove

    def rename(self, src, dst):
        return self._fs.rename(src, dst)

    replace = rename

    def rmdir(self, path):
        return self._fs.rmdir(path)

    def fsync(self, fd):
        self._fs._seam('fs.fsync', str(fd) if not isinstance(fd, int) else '')
        return None

    fdatasync = fsync

    def sync(self):
        self._fs._seam('fs.fsync', '')

    def fspath(self, p):
        return __import__('os').fspath(p)

    def getpid(self):
        k = self._fs.kernel
        return 1000 + (k.current.index if k and k.current else 0)

    def getcwd(self):
        return '/cwd'

    def cpu_count(self):
        return 8

    def stat(self, path):
        size = self._fs.getsize(path)
        now = self._fs.kernel.now if self._fs.kernel else 0.0
        import stat as _stat
        mode = (_stat.S_IFDIR | 0o755) if self._fs.norm(path) in self._fs.dirs else (_stat.S_IFREG | 0o644)
        return __import__('os').stat_result((mode, 0, 0, 1, 0, 0, size, int(now), int(now), int(now)))

    def scandir(self, path='.'):
        fs = self._fs
        names = fs.listdir(path)

        class _Entry:
            def __init__(self, name):
                self.name = name
                self.path = posixpath.join(str(path), name)

            def is_dir(self, follow_symlinks=True):
                return fs.norm(self.path) in fs.dirs

            def is_file(self, follow_symlinks=True):
                return fs.norm(self.path) in fs.files

            def stat(self, follow_symlinks=True):
                return SimOS.stat(outer, self.path)

            def __fspath__(self):
                return self.path
        outer = self

        class _Iter(list):
            def __enter__(self_):
                return self_

            def __exit__(self_, *exc):
                return False

            def close(self_):
                pass
        return _Iter(_Entry(n) for n in names)

    def walk(self, top):
        names = self._fs.listdir(top)
        dirs = [n for n in names if self._fs.norm(posixpath.join(top, n)) in self._fs.dirs]
        files = [n for n in names if n not in dirs]
        yield top, dirs, files
        for d in dirs:
            yield from self.walk(posixpath.join(top, d))

    def __getattr__(self, name):
        raise HarnessError('os.%s is not simulated' % name)


def _simraw_of(f):
    for _ in range(4):
        if isinstance(f, SimRaw):
            return f
        f = getattr(f, 'buffer', None) or getattr(f, 'raw', None)
        if f is None:
            return None
    return None


class _NoDescriptor:
    """While numpy writes through a simulated file object, that object has no descriptor numpy could bypass it with."""

    def __init__(self, f):
        self.raw = _simraw_of(f)

    def __enter__(self):
        if self.raw is not None:
            self.raw._fd_ok = False

    def __exit__(self, *exc):
        if self.raw is not None:
            self.raw._fd_ok = True
        return False


class SimNP:
    """`np` stand-in: everything is real numpy, except that save/savez/load go to the simulated FS
    (the bytes are produced and parsed by the real numpy / zipfile code)."""

    def __init__(self, fs):
        object.__setattr__(self, '_fs', fs)

    def __getattr__(self, name):
        return getattr(real_np, name)

    @staticmethod
    def _path(file, ext):
        if isinstance(file, (str, bytes)) or hasattr(file, '__fspath__'):
            p = str(file.__fspath__() if hasattr(file, '__fspath__') else file)
            if not p.endswith(ext):
                p += ext
            return p
        return None

    def save(self, file, arr, *a, **kw):
        p = self._path(file, '.npy')
        if p is None:
            with _NoDescriptor(file):
                return real_np.save(file, arr, *a, **kw)
        with self._fs.open(p, 'wb') as f:
            with _NoDescriptor(f):
                real_np.save(f, arr, *a, **kw)

    def _savez(self, fn, file, args, kwds):
        p = self._path(file, '.npz')
        if p is None:
            with _NoDescriptor(file):
                return fn(file, *args, **kwds)
        f = self._fs.open(p, 'w+b')        # zipfile opens the path with 'w+b'
        raw = _simraw_of(f)
        if raw is not None:
            raw._fd_ok = False
        try:
            fn(f, *args, **kwds)
        except SimKilled:
            raise                           # the process is gone; nothing is flushed or closed
        except BaseException:
            f.close()
            raise
        f.close()

    def savez(self, file, *args, **kwds):
        return self._savez(real_np.savez, file, args, kwds)

    def savez_compressed(self, file, *args, **kwds):
        return self._savez(real_np.savez_compressed, file, args, kwds)

    def load(self, file, *a, **kw):
        p = self._path(file, '')
        if p is None:
            return real_np.load(file, *a, **kw)
        data = self._fs.read_bytes(p)
        return real_np.load(io.BytesIO(data), *a, **kw)

    def savetxt(self, fname, X, *a, **kw):
        p = self._path(fname, '')
        if p is None:
            with _NoDescriptor(fname):
                return real_np.savetxt(fname, X, *a, **kw)
        with self._fs.open(p, 'w') as f:
            with _NoDescriptor(f):
                real_np.savetxt(f, X, *a, **kw)

    def loadtxt(self, fname, *a, **kw):
        p = self._path(fname, '')
        if p is None:
            return real_np.loadtxt(fname, *a, **kw)
        data = self._fs.read_bytes(p)
        return real_np.loadtxt(io.StringIO(data.decode()), *a, **kw)


class SimGlob:
    """Stand-in for the `glob` module over the simulated file system (same matching rules: fnmatch per path component,
    names starting with a dot only match patterns that start with a dot)."""

    def __init__(self, fs):
        self._fs = fs

    @staticmethod
    def escape(pathname):
        import glob as real_glob
        return real_glob.escape(pathname)

    @staticmethod
    def has_magic(s):
        import glob as real_glob
        return real_glob.has_magic(s)

    def iglob(self, pathname, *, root_dir=None, dir_fd=None, recursive=False, include_hidden=False):
        return iter(self.glob(pathname, root_dir=root_dir, recursive=recursive, include_hidden=include_hidden))

    def glob(self, pathname, *, root_dir=None, dir_fd=None, recursive=False, include_hidden=False):
        import fnmatch
        import glob as real_glob
        fs = self._fs
        fs._seam('fs.glob', short(pathname))
        pattern = str(pathname)
        absolute = pattern.startswith('/')
        base = '/' if absolute else fs.norm(root_dir or '.')
        parts = [p for p in pattern.split('/') if p not in ('', '.')]
        current = [base.rstrip('/') or '/']
        for depth, part in enumerate(parts):
            last = depth == len(parts) - 1
            nxt = []
            for cur in current:
                if cur not in fs.dirs:
                    continue
                pre = cur.rstrip('/') + '/'
                if not real_glob.has_magic(part):
                    cand = pre + part
                    if cand in fs.dirs or (last and cand in fs.files):
                        nxt.append(cand)
                    continue
                names = set()
                for q in list(fs.files) + list(fs.dirs):
                    if q.startswith(pre) and q != cur:
                        names.add(q[len(pre):].split('/')[0])
                for name in sorted(names):
                    if name.startswith('.') and not (part.startswith('.') or include_hidden):
                        continue
                    if fnmatch.fnmatchcase(name, part):
                        cand = pre + name
                        if last or cand in fs.dirs:
                            nxt.append(cand)
            current = nxt
        out = sorted(current)
        if not absolute:
            strip = base.rstrip('/') + '/'
            out = [o[len(strip):] if o.startswith(strip) else o for o in out]
        return out


class SimShutil:
    """Stand-in for `shutil` (only if the module under test has such a global): the operations a bookkeeping fix might use."""

    def __init__(self, fs):
        self._fs = fs

    def rmtree(self, path, ignore_errors=False, onerror=None):
        self._fs.rmtree(path)

    def move(self, src, dst):
        self._fs.rename(src, dst)
        return dst

    def copyfile(self, src, dst, **kw):
        data = self._fs.read_bytes(src)
        with self._fs.open(dst, 'wb') as f:
            f.write(data)
        return dst

    copy = copy2 = copyfile

    def __getattr__(self, name):
        raise HarnessError('shutil.%s is not simulated' % name)
