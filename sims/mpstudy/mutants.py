"""Sensitivity mutants for C18 (text replacements in TidalPy/utilities/multiprocessing/multiprocessing.py)."""
MOD = 'TidalPy.utilities.multiprocessing.multiprocessing'
MUTANTS = [
    ('return-late-bound-run_num', "case_number=this_run_num", "case_number=run_num"),
    ('skip-scan-ignores-marker', "            if not os.path.isfile(success_file_path):\n                # No success file. Rerun.\n                continue\n            else:\n                # Success file found. Skip this run.\n                cases_to_skip.append(run_num)\n\n        with open(mp_log_path, 'a')",
     "            if False:\n                continue\n            else:\n                cases_to_skip.append(run_num)\n\n        with open(mp_log_path, 'a')"),
    ('redo-completed-cases', "        if run_num in cases_to_skip:\n            skipped_indicies[run_num] = tuple(run_indicies)\n            continue\n", "        if False:\n            continue\n"),
    ('drop-previous-results', "            mp_results = mp_results + previous_run_data\n", "            mp_results = mp_results\n"),
    ('journal-always-complete', "    return ('------Inputs Below------\\n' in lines) and ('------------\\n' in lines)", "    return True"),
    ('no-paren-strip', "for bracket in ('[', ']', '(', ')'):", "for bracket in ('[', ']'):"),
    ('marker-before-result',
     "            np.savez(os.path.join(this_run_dir, f'mp_results.npz'), **result)\n\n            # Save something to disk to mark that this was completed successfully\n            success_text = f'  Run: {this_run_num} completed successfully. ' \\\n                           f'Taking {time.time() - run_time_init:0.2f} seconds.\\n'\n            with open(os.path.join(this_run_dir, 'mp_success.log'), 'w') as success_file:\n                success_file.write(success_text)\n",
     "            success_text = f'  Run: {this_run_num} completed successfully. ' \\\n                           f'Taking {time.time() - run_time_init:0.2f} seconds.\\n'\n            with open(os.path.join(this_run_dir, 'mp_success.log'), 'w') as success_file:\n                success_file.write(success_text)\n            np.savez(os.path.join(this_run_dir, f'mp_results.npz'), **result)\n"),
    ('result-file-never-written', "            np.savez(os.path.join(this_run_dir, f'mp_results.npz'), **result)\n\n            # Save something", "            # Save something"),
    ('restart-uses-call-inputs', "                    input_data_to_use.append(input_tuple)\n", "                    input_data_to_use.append(input_tuple)\n        input_data_to_use = [t._replace(must_include=[]) for t in input_data_to_use]\n"),
    ('previous-result-of-wrong-case', "                previous_run_data.append((run_num, run_indicies, case_result))", "                previous_run_data.append((run_num, run_indicies, np.load(os.path.join(dir_to_use, f'index_{skipped_indicies[cases_to_skip[0]]}_run_{cases_to_skip[0]}', 'mp_results.npz'))))"),
    ('marker-written-for-failed-run', "        if not failed_run:\n            # Save key data", "        if failed_run:\n            with open(os.path.join(this_run_dir, 'mp_success.log'), 'w') as success_file:\n                success_file.write('x')\n        if not failed_run:\n            # Save key data"),
]
