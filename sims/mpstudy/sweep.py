"""Exhaustive single-kill sweeps (the "three or fewer operations" regime): for small seeded studies, under a fixed
schedule, EVERY seam step of the first attempt is tried as the kill point, followed by a fault-free restart.  In the
thorough tier a second family kills a restart at every step as well (kill, killed restart, clean restart)."""
import copy

from simkit.draw import Draw, subseed
from . import workload


def small_plan(seed):
    d = Draw(seed)
    while True:
        plan = workload.gen_plan(subseed(seed, 'base', d.below(1 << 30)), 'quick')
        if 2 <= workload.Reference(plan).total <= 6:
            break
    plan['max_procs'] = 4
    plan['cpus'] = 8
    plan['permanent_fail'] = []
    plan['arr_len'] = d.pick([1, 40, 1100])
    plan['bufsize'] = d.pick([8192, 8192, 512])
    return plan, d


def sweep_plans(engine, base_seed, n_configs, double=False):
    plans = []
    meta = []
    for i in range(n_configs):
        plan, d = small_plan(subseed(base_seed, 'C18-sweep', i))
        sched = {'mode': 'sequential'} if i % 2 == 0 else {'mode': 'seeded', 'seed': d.below(1 << 30), 'sticky': 2}
        clean = {'kill': None, 'fail': [], 'sched': {'mode': 'seeded', 'seed': d.below(1 << 30), 'sticky': 3}}
        base = copy.deepcopy(plan)
        base['attempts'] = [{'kill': None, 'fail': [], 'sched': dict(sched)}]
        dry = engine.run_plan(base)
        n_steps = dry['steps']
        first_k = []
        for k in range(1, n_steps + 1):
            p = copy.deepcopy(plan)
            p['attempts'] = [{'kill': {'step': k}, 'fail': [], 'sched': dict(sched)}, copy.deepcopy(clean)]
            plans.append(p)
            first_k.append(k)
        n_double = 0
        if double:
            # kill the first attempt at a few spread-out points, then kill the restart at every one of its steps
            for k1 in sorted(set([max(1, n_steps // 3), max(1, (2 * n_steps) // 3), max(1, n_steps - 3)])):
                p1 = copy.deepcopy(plan)
                p1['attempts'] = [{'kill': {'step': k1}, 'fail': [], 'sched': dict(sched)},
                                  {'kill': None, 'fail': [], 'sched': dict(sched)}]
                r1 = engine.run_plan(p1)
                n2 = r1['steps'] - k1
                for k2 in range(1, max(1, n2) + 1):
                    p = copy.deepcopy(plan)
                    p['attempts'] = [{'kill': {'step': k1}, 'fail': [], 'sched': dict(sched)},
                                     {'kill': {'step': k2}, 'fail': [], 'sched': dict(sched)}, copy.deepcopy(clean)]
                    plans.append(p)
                    n_double += 1
        meta.append({'cases': workload.Reference(plan).total, 'schedule': sched['mode'], 'steps_of_uninterrupted_attempt': n_steps,
                     'single_kill_points_swept': len(first_k), 'double_kill_plans': n_double,
                     'arr_len': plan['arr_len'], 'bufsize': plan['bufsize'], 'avoid_crashes': plan['avoid_crashes']})
    return plans, meta
