"""Simulated pathos ProcessingPool / multiprocess Pool.map, clock, psutil and the stub installer.

SimPool follows multiprocess 0.70.19 (`Pool._map_async`, `_get_tasks`, `mapstar`,
`MapResult._set`) and pathos' `ProcessingPool.map`: the iterable is cut into batches of
`chunksize`; idle workers pull the next batch from a FIFO; a batch is `list(map(f, batch))`, so
an exception abandons the rest of that batch; the MapResult is ready only when *all* batches
have reported and then `map` returns the values in input order or raises the first exception.
Function, arguments and results cross the process boundary through dill, exactly once per batch.
"""
import datetime as real_datetime
import itertools

import dill

from .kernel import HarnessError


class SimPool:
    def __init__(self, kernel, nodes, stats):
        self.kernel = kernel
        self.nodes = int(nodes) if nodes else 4
        self.stats = stats

    def __enter__(self):
        return self

    def __exit__(self, *exc):
        return False

    def close(self):
        pass

    def join(self):
        pass

    def clear(self):
        pass

    terminate = restart = close

    def map(self, f, *args, **kwds):
        k = self.kernel
        chunksize = kwds.get('chunksize', None)
        if len(args) == 1:
            items = [(a,) for a in args[0]]
        else:
            items = list(zip(*args))
        n = len(items)
        if chunksize is None:
            chunksize, extra = divmod(n, self.nodes * 4)
            if extra:
                chunksize += 1
        if n == 0:
            return []
        chunksize = max(1, int(chunksize))
        it = iter(items)
        batches = []
        while True:
            x = tuple(itertools.islice(it, chunksize))
            if not x:
                break
            batches.append(x)
        k.seam('pool.submit', '%d batches of <=%d' % (len(batches), chunksize))
        # the task handler thread pickles (func, batch) when it puts them on the pipe
        wire = [dill.dumps((f, b)) for b in batches]
        queue = list(range(len(batches)))
        reports = {}
        state = {'shutdown': False}
        self.stats['batches'] = self.stats.get('batches', 0) + len(batches)

        def worker(widx):
            def body():
                while True:
                    k.block_until(lambda: bool(queue) or state['shutdown'], 'a task batch')
                    if not queue:
                        return
                    k.seam('pool.get', 'w%d' % widx)
                    if not queue:
                        continue
                    bi = queue.pop(0)
                    func, batch = dill.loads(wire[bi])
                    try:
                        vals = []
                        for a in batch:
                            r = func(*a)
                            cb = self.stats.get('on_item_done')
                            if cb is not None:
                                cb('w%d' % widx, r)
                            vals.append(r)
                        out = (True, vals)
                    except Exception as e:
                        out = (False, e)
                    try:
                        payload = dill.dumps(out)
                    except Exception as e:   # result not picklable: multiprocess wraps it
                        payload = dill.dumps((False, RuntimeError('MaybeEncodingError: %r' % (e,))))
                    k.seam('pool.put', 'w%d batch %d' % (widx, bi))
                    reports[bi] = payload
            return body

        for w in range(self.nodes):
            k.spawn('w%d' % w, worker(w))
        k.block_until(lambda: len(reports) == len(batches), 'all batches')
        state['shutdown'] = True
        k.seam('pool.collect', '')
        values = []
        first_exc = None
        for bi in range(len(batches)):
            ok, val = dill.loads(reports[bi])
            if ok:
                values.extend(val)
            elif first_exc is None:
                first_exc = val
        # which failed batch reported first decides the exception multiprocess raises; the code
        # under test only uses its text, so the lowest-numbered one is as good as any
        if first_exc is not None:
            raise first_exc
        return values

    def imap(self, *a, **k):
        raise HarnessError('SimPool.imap is not simulated')

    uimap = amap = apipe = pipe = imap


class SimPathosMP:
    """Stand-in for `pathos.multiprocessing` (module global `pathos_mp`)."""

    def __init__(self, kernel, stats):
        self.kernel = kernel
        self.stats = stats

    def ProcessingPool(self, nodes=None, *a, **kw):
        if nodes is None and a:
            nodes = a[0]
        self.stats['pool_nodes'] = nodes
        return SimPool(self.kernel, nodes, self.stats)

    ProcessPool = Pool = ProcessingPool

    def __getattr__(self, name):
        raise HarnessError('pathos_mp.%s is not simulated' % name)


class SimPythonMP:
    def __getattr__(self, name):
        raise HarnessError('the standard-library pool fallback is not simulated (python_mp.%s)' % name)


class SimTime:
    def __init__(self, kernel):
        self._k = kernel

    def time(self):
        return self._k.now

    perf_counter = monotonic = process_time = time

    def time_ns(self):
        return int(self._k.now * 1e9)

    def sleep(self, s):
        self._k.advance(float(s))

    def strftime(self, fmt, t=None):
        return real_datetime.datetime.utcfromtimestamp(self._k.now).strftime(fmt)

    def __getattr__(self, name):
        raise HarnessError('time.%s is not simulated' % name)


class SimDatetime:
    """Stand-in for the class `datetime.datetime` imported by name into the module."""

    def __init__(self, kernel):
        self._k = kernel

    def now(self, tz=None):
        return real_datetime.datetime.utcfromtimestamp(self._k.now)

    utcnow = today = now

    def fromtimestamp(self, *a, **k):
        return real_datetime.datetime.utcfromtimestamp(a[0])

    def __call__(self, *a, **k):
        return real_datetime.datetime(*a, **k)

    def __getattr__(self, name):
        return getattr(real_datetime.datetime, name)


class SimPsutil:
    def __init__(self, cpus, mem_total):
        self._cpus = cpus
        self._mem = mem_total

    def cpu_count(self, logical=True):
        return self._cpus

    def virtual_memory(self):
        class _M:
            total = self._mem
            available = self._mem
            free = self._mem
            used = 0
            percent = 0.0
        return _M()

    def __getattr__(self, name):
        raise HarnessError('psutil.%s is not simulated' % name)


class Stubs:
    """Install the stand-ins as module globals of the code under test for the duration of one attempt."""

    NAMES = ('open', 'os', 'np', 'time', 'datetime', 'psutil', 'pathos_mp', 'python_mp', 'print',
             'pathos_installed', 'psutil_installed', 'glob', 'shutil')

    def __init__(self, module, fs, kernel, cpus, mem_total, stats):
        from .simfs import SimOS, SimNP, SimGlob, SimShutil
        self.module = module
        self.saved = {}
        self.values = {
            'open': fs.open, 'os': SimOS(fs), 'np': SimNP(fs), 'time': SimTime(kernel),
            'datetime': SimDatetime(kernel), 'psutil': SimPsutil(cpus, mem_total),
            'pathos_mp': SimPathosMP(kernel, stats), 'python_mp': SimPythonMP(),
            'print': lambda *a, **k: kernel.note('print', ' '.join(str(x) for x in a)[:80]),
            'pathos_installed': True, 'psutil_installed': True, 'glob': SimGlob(fs), 'shutil': SimShutil(fs),
        }
        # other names under which the module holds something the simulator owns (see seams.py)
        from . import seams
        self.alias, self.problems = seams.aliases(module, self.values)

    def __enter__(self):
        d = self.module.__dict__
        for n in self.NAMES:
            self.saved[n] = d.get(n, _MISSING)
            d[n] = self.values[n]
        for n, v in self.alias.items():
            if n not in self.saved:
                self.saved[n] = d.get(n, _MISSING)
            d[n] = v
        return self

    def __exit__(self, *exc):
        d = self.module.__dict__
        for n, v in self.saved.items():
            if v is _MISSING:
                d.pop(n, None)
            else:
                d[n] = v
        return False


_MISSING = object()
