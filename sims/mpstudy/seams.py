"""Seam audit of the module under test.

The simulation owns the outside world of `multiprocessing_run` through the module globals it replaces (open, os, np,
time, datetime, psutil, pathos_mp, python_mp, glob, shutil, print).  A version of the module that reaches the outside
world through a door the simulator does not hold (pathlib, tempfile, subprocess, an `import os` inside a function,
`from os import makedirs`, ...) would run half simulated and half real, and whatever the oracle then said would be a
statement about the harness, not about the property.  So before anything is judged:

  * every import statement of the module (at any depth) is classified: owned (replaced), pure (cannot touch the world),
    or unowned -> the check refuses to give a verdict (HARNESS-ERROR, never a VIOLATION line);
  * module globals that are merely other *names* for something owned (`import numpy`, `import os as _os`,
    `from os import makedirs`, `from os.path import join, exists`, `from time import time`, `import datetime`,
    `from shutil import rmtree`, `from glob import glob`) are re-pointed at the same stand-ins for the duration of an
    attempt, so that an ordinary restyling of the imports changes nothing.
"""
import ast
import builtins
import datetime as real_datetime
import glob as real_glob
import io as real_io
import os as real_os
import posixpath
import shutil as real_shutil
import time as real_time
import types

import numpy as real_np

OWNED_ROOTS = {'os', 'posixpath', 'time', 'datetime', 'numpy', 'psutil', 'pathos', 'multiprocessing', 'multiprocess',
               'glob', 'shutil'}
PURE_ROOTS = {'math', 'cmath', 'warnings', 'collections', 'typing', 'itertools', 'functools', 're', 'string', 'numbers',
              'dataclasses', 'enum', 'abc', 'copy', 'operator', 'textwrap', 'TidalPy', '__future__', 'types', 'decimal',
              'fractions', 'bisect', 'heapq', 'contextlib', 'sys', 'logging', 'traceback', 'gc', 'json', 'pickle',
              'dill', 'hashlib', 'struct', 'array', 'pprint', 'inspect', 'weakref', 'statistics', 'fnmatch', 'errno',
              'stat', 'zipfile', 'zlib'}
NP_IO = ('save', 'savez', 'savez_compressed', 'load', 'savetxt', 'loadtxt')
NP_IO_UNOWNED = ('genfromtxt', 'fromfile', 'memmap', 'tofile', 'DataSource', 'open_memmap')


def audit_source(module):
    """-> list of human-readable reasons why this module cannot be simulated faithfully (empty = fine)."""
    import inspect
    try:
        tree = ast.parse(inspect.getsource(module))
    except (OSError, SyntaxError) as e:
        return ['source of %s cannot be parsed: %s' % (module.__name__, e)]
    problems = []
    top_level = set()
    # imports wrapped in a top-level try/if are still module-level bindings
    for n in tree.body:
        if isinstance(n, (ast.Try, ast.If)):
            for sub in ast.walk(n):
                if isinstance(sub, (ast.Import, ast.ImportFrom)):
                    top_level.add(id(sub))
    in_function = set()
    for n in ast.walk(tree):
        if isinstance(n, (ast.FunctionDef, ast.AsyncFunctionDef, ast.Lambda, ast.ClassDef)):
            for sub in ast.walk(n):
                if isinstance(sub, (ast.Import, ast.ImportFrom)):
                    in_function.add(id(sub))
    for n in ast.walk(tree):
        if isinstance(n, ast.Import):
            roots = [(a.name.split('.')[0], a.name) for a in n.names]
        elif isinstance(n, ast.ImportFrom):
            if n.level and n.level > 0:
                continue                                  # relative import inside TidalPy (pathos/psutil shims: replaced by name)
            roots = [((n.module or '').split('.')[0], n.module or '')]
        else:
            continue
        for root, full in roots:
            if root in PURE_ROOTS:
                continue
            if root in OWNED_ROOTS:
                if id(n) in in_function:
                    problems.append('line %d: `%s` is imported inside a function; the simulator replaces module globals only'
                                    % (n.lineno, full))
                continue
            if root == 'io':
                continue                                  # checked by use below
            problems.append('line %d: import of `%s`, a door to the outside world the simulator does not own' % (n.lineno, full))
    for n in ast.walk(tree):
        if isinstance(n, ast.Attribute) and isinstance(n.value, ast.Name):
            if n.value.id == 'io' and n.attr in ('open', 'FileIO', 'open_code'):
                problems.append('line %d: io.%s opens real files' % (n.lineno, n.attr))
            if n.attr in NP_IO_UNOWNED and n.value.id in ('np', 'numpy'):
                problems.append('line %d: numpy.%s touches real files and is not simulated' % (n.lineno, n.attr))
        if isinstance(n, ast.Call) and isinstance(n.func, ast.Name) and n.func.id in ('__import__', 'exec', 'eval'):
            problems.append('line %d: %s() - cannot be audited' % (n.lineno, n.func.id))
    return problems


class _SimDatetimeModule:
    """`import datetime` (the module): datetime.datetime is the simulated clock, the rest is real."""

    def __init__(self, sim_datetime_class):
        self.datetime = sim_datetime_class

    def __getattr__(self, name):
        return getattr(real_datetime, name)


def aliases(module, values):
    """Other names under which the module holds something the simulator owns.

    values: the stand-ins by canonical name (Stubs.values).  -> ({global name: stand-in}, [problems])"""
    out, problems = {}, []
    sim_os, sim_np, sim_time = values['os'], values['np'], values['time']
    whole = [(real_os, sim_os), (real_os.path, sim_os.path), (real_np, sim_np), (real_time, sim_time),
             (real_glob, values['glob']), (real_shutil, values['shutil']),
             (real_datetime, _SimDatetimeModule(values['datetime'])), (real_datetime.datetime, values['datetime'])]
    try:
        import psutil as real_psutil
        whole.append((real_psutil, values['psutil']))
    except ImportError:
        pass
    members = [(real_os, sim_os, 'os'), (real_os.path, sim_os.path, 'os.path'), (real_time, sim_time, 'time'),
               (real_glob, values['glob'], 'glob'), (real_shutil, values['shutil'], 'shutil')]
    pure_os_path = {getattr(posixpath, n) for n in ('join', 'basename', 'dirname', 'split', 'splitext', 'normpath', 'isabs',
                                                    'relpath', 'commonpath', 'commonprefix', 'normcase')}
    from .simfs import HarnessError
    for g, v in list(module.__dict__.items()):
        if g.startswith('__'):
            continue
        hit = False
        for real, sim in whole:
            if v is real:
                if g not in values or values[g] is not sim:
                    out[g] = sim
                hit = True
                break
        if hit:
            continue
        if v is builtins.open or v is real_io.open:
            if g != 'open':
                out[g] = values['open']
            continue
        if isinstance(v, type) or not callable(v):
            continue                                   # numpy's public functions are dispatcher objects, not FunctionType
        try:
            hash(v)
        except TypeError:
            continue
        if v in pure_os_path:
            continue
        name = getattr(v, '__name__', None)
        if not name:
            continue
        if name in NP_IO and getattr(real_np, name, None) is v:
            out[g] = getattr(sim_np, name)
            continue
        if name in NP_IO_UNOWNED and getattr(real_np, name, None) is v:
            problems.append('global `%s` is numpy.%s, which touches real files and is not simulated' % (g, name))
            continue
        for real, sim, label in members:
            if getattr(real, name, None) is v:
                try:
                    out[g] = getattr(sim, name)
                except (HarnessError, AttributeError):
                    problems.append('global `%s` is %s.%s, which is not simulated' % (g, label, name))
                break
    return out, problems
