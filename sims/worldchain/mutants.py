"""Sensitivity mutants for C16: (module, label, old text, new text)."""
WBD = 'TidalPy.structures.world_builder.world_builder'
CH = 'TidalPy.structures.world_builder.config_handler'
DU = 'TidalPy.utilities.dictionary_utils'
PH = 'TidalPy.structures.physical'
HL = 'TidalPy.structures.layers.helper'


def mutants_for(prop):
    return [
        (WBD, 'variant-counter-not-incremented', "                break\n            i += 1\n", "                break\n"),
        (WBD, 'variant-ignores-build-name', "    old_names = (old_world.name, old_config_copy['name'])", "    old_names = (old_config_copy['name'],)"),
        (WBD, 'scale-skips-prescribed-thickness', "        for length_key in ('radius', 'thickness'):\n            if layer_dict.get(length_key, None) is not None:", "        for length_key in ('radius',):\n            if layer_dict.get(length_key, None) is not None:"),
        (WBD, 'scale-stores-a-derived-thickness', "        scaled_layer_dict.pop('radius_inner', None)\n", "        scaled_layer_dict.pop('radius_inner', None)\n        scaled_layer_dict['thickness'] = radius_scale * old_world.layers_by_name[layer_name].thickness\n"),
        (WBD, 'derive-cleans-config-in-place', "    old_config_copy = clean_world_config(old_config, make_copy=True)", "    old_config_copy = clean_world_config(old_config, make_copy=False)"),
        (WBD, 'derive-merges-without-copies', "    combo_dict = nested_merge(old_config_copy, new_config, make_copies=True)", "    combo_dict = nested_merge(old_config_copy, new_config, make_copies=False)"),
        (WBD, 'scale-cleans-config-in-place', "    scaled_config = clean_world_config(old_world.config, make_copy=True)", "    scaled_config = clean_world_config(old_world.config, make_copy=False)"),
        (WBD, 'user-config-not-copied', "        world_config = copy.deepcopy(world_config)\n", "        world_config = world_config\n"),
        (PH, 'volume-from-outer-radius-only', "            self._volume = (4. / 3.) * np.pi * (self.radius**3 - self.radius_inner**3)", "            self._volume = (4. / 3.) * np.pi * (self.radius**3)"),
        (PH, 'gravity-ignores-mass-below', "            self._gravity_outer = G * (self.mass + self.mass_below) / self.radius**2", "            self._gravity_outer = G * (self.mass) / self.radius**2"),
        (HL, 'thickness-from-world-radius', "                    thickness = radius - layer_below_radius\n    if geo_fail", "                    thickness = radius - 0.5 * layer_below_radius\n    if geo_fail"),
    ]
