"""C16 engine: seeded chains of build_world / build_from_world / scale_from_world with per-step invariants,
non-mutation snapshots of every earlier world and input dict, and a deterministic termination budget."""
import copy
import logging
import math
import os
import sys

import numpy as np

from simkit.engine import EngineBase
from simkit.draw import Draw, digest as jdigest
from simkit.shrink import without_chunks

G = 6.67430e-11
SHIPPED = ['55cnc', '55cnce_simple', 'earth_simple', 'io_simple', 'jupiter', 'neptune', 'nereid_dev', 'sol', 'trappist1',
           'trappist1b', 'trappist1c', 'trappist1d', 'trappist1e', 'trappist1f', 'trappist1g', 'trappist1h', 'triton_simple']
LAYERED = ['55cnce_simple', 'earth_simple', 'io_simple', 'nereid_dev']
LINE_BUDGET = 1_000_000

_TP = {}


class BudgetExceeded(BaseException):
    pass


def tp():
    if not _TP:
        import warnings
        warnings.filterwarnings('ignore')
        import TidalPy  # noqa
        from TidalPy.structures import build_world, build_from_world, scale_from_world
        import TidalPy.structures.world_builder.world_builder as wb
        import TidalPy.utilities.dictionary_utils as du
        import TidalPy.structures.world_builder.config_handler as ch
        logging.disable(logging.CRITICAL)
        _TP.update(build_world=build_world, build_from_world=build_from_world, scale_from_world=scale_from_world,
                   files={os.path.abspath(m.__file__) for m in (wb, du, ch)}, wb=wb)
    return _TP


def run_budgeted(fn, budget=LINE_BUDGET):
    """Run fn() counting line events in the world-builder / dictionary-utils frames; raise BudgetExceeded beyond the
    budget.  Deterministic decision of 'does not terminate' (a normal call uses a few thousand line events)."""
    files = tp()['files']
    count = [0]

    def local(frame, event, arg):
        if event == 'line':
            count[0] += 1
            if count[0] > budget:
                raise BudgetExceeded()
        return local

    def tracer(frame, event, arg):
        if event == 'call' and frame.f_code.co_filename in files:
            return local
        return None

    old = sys.gettrace()
    sys.settrace(tracer)
    try:
        return fn(), count[0]
    finally:
        sys.settrace(old)


# --------------------------------------------------------------------------------------------------
def deep_equal(a, b):
    if isinstance(a, dict) and isinstance(b, dict):
        return a.keys() == b.keys() and all(deep_equal(a[k], b[k]) for k in a)
    if isinstance(a, (list, tuple)) and isinstance(b, (list, tuple)):
        return len(a) == len(b) and all(deep_equal(x, y) for x, y in zip(a, b))
    if isinstance(a, np.ndarray) or isinstance(b, np.ndarray):
        try:
            return np.array_equal(np.asarray(a), np.asarray(b), equal_nan=True)
        except Exception:
            return False
    if isinstance(a, float) and isinstance(b, float) and math.isnan(a) and math.isnan(b):
        return True
    try:
        return bool(a == b)
    except Exception:
        return a is b


def first_difference(a, b, path=''):
    if isinstance(a, dict) and isinstance(b, dict):
        for k in sorted(set(a) | set(b), key=str):
            if k not in a or k not in b:
                return '%s/%s only in %s' % (path, k, 'snapshot' if k in a else 'current')
            d = first_difference(a[k], b[k], path + '/' + str(k))
            if d:
                return d
        return None
    if isinstance(a, (list, tuple)) and isinstance(b, (list, tuple)) and len(a) == len(b):
        for i, (x, y) in enumerate(zip(a, b)):
            d = first_difference(x, y, '%s[%d]' % (path, i))
            if d:
                return d
        return None
    if not deep_equal(a, b):
        return '%s: %r -> %r' % (path, _short(a), _short(b))
    return None


def _short(x):
    s = repr(x)
    return s if len(s) < 80 else s[:77] + '...'


def snapshot(world):
    s = {'name': world.name, 'class': type(world).__name__, 'config': copy.deepcopy(world.config),
         'radius': world.radius, 'mass': world.mass, 'volume': getattr(world, 'volume', None)}
    layers = []
    if hasattr(world, 'layers'):
        for L in world:
            layers.append({'name': L.name, 'radius': L.radius, 'thickness': L.thickness, 'radius_inner': L.radius_inner,
                           'mass': L.mass, 'volume': L.volume, 'config': copy.deepcopy(L.config)})
        s['radii'] = np.array(world.radii, copy=True) if world.radii is not None else None
    s['layers'] = layers
    return s


def rel(a, b):
    if a == b:
        return 0.0
    return abs(a - b) / max(abs(a), abs(b))


# --------------------------------------------------------------------------------------------------
LAYER_TYPES = ['iron', 'rock', 'ice']


def gen_config(d: Draw, idx):
    """A generated 1-6 layer configuration (radii by boundary fractions; mass derived from densities or given)."""
    n = d.between(1, 6)
    R = d.pick([2.0e5, 1.8e6, 6.371e6, 1.2e7])
    cuts = sorted(set(d.between(5, 95) for _ in range(n - 1)))
    fracs = [c / 100.0 for c in cuts] + [1.0]
    if len(fracs) >= 2 and d.chance(1, 5):
        # a very thin layer (a regolith, sediments, a thin boundary layer): boundaries a few parts in 1e6 apart
        thin = d.pick([3.0e-6, 1.0e-6, 5.0e-7, 5.5e-6])
        where = d.weighted([('top', 3), ('inner', 1)])
        if where == 'top':
            fracs[-2] = 1.0 - thin
        else:
            k = d.below(len(fracs) - 1)
            fracs[k] = (fracs[k + 1] - thin) if k + 1 < len(fracs) else fracs[k]
        fracs = sorted(set(fracs))
    name = d.weighted([('Gen%d', 6), ('Gen%d_variant', 1), ('Gen%d_variant_9', 1), ('Gen%d_variant_10', 1), ('super-Gen%d', 1),
                       ('mini-Gen%d_variant_2', 1)]) % idx
    cfg = {'name': name, 'type': 'layered', 'radius': R, 'layers': {}}
    # the name a world is BUILT under may differ from the name inside its configuration (shipped worlds: 'io_simple' vs
    # 'Io_Simple'); the variant naming has to keep clear of both
    bn = d.weighted([('same', 6), ('variant_of', 1), ('base_of', 1), ('lower', 1), ('other', 1)])
    if bn == 'variant_of':
        cfg['_build_name'] = name + d.pick(['_variant', '_variant_2', '_variant_3'])
    elif bn == 'base_of' and '_variant' in name:
        cfg['_build_name'] = name.split('_variant')[0]
    elif bn == 'lower':
        cfg['_build_name'] = name.lower()
    elif bn == 'other':
        cfg['_build_name'] = 'K2_%db' % idx
    if d.chance(1, 3):
        cfg['slices'] = d.pick([10, 40, 55])
    prev = 0.0
    stack_style = len(fracs) >= 2 and d.chance(1, 5)     # a core given by radius, the layers above stacked by thickness
    cfg['_stack_style'] = stack_style
    for i, f in enumerate(fracs):
        lname = 'L%d' % i
        depth_rank = i / max(1, len(fracs) - 1)
        ltype = 'iron' if depth_rank < 0.34 and len(fracs) > 1 else d.pick(['rock', 'rock', 'ice']) if depth_rank > 0.5 else 'rock'
        layer = {'type': ltype, 'is_tidal': (i == len(fracs) - 1) or d.chance(1, 3)}
        dens = {'iron': d.pick([8000.0, 12000.0]), 'rock': d.pick([3300.0, 5000.0]), 'ice': d.pick([950.0, 1300.0])}[ltype]
        # how the layer's mass is prescribed: a density (either key), the mass itself, or (below, once it is known whether
        # the world prescribes its mass) a fraction of the world's mass
        mass_mode = d.weighted([('density', 8), ('density_bulk', 4), ('mass', 1), ('mass_frac', 1)])
        layer['_mass_mode'] = mass_mode
        layer['_dens'] = dens
        how = d.weighted([('radius', 8), ('thickness', 2), ('both', 2), ('implicit_top', 1)])
        if how == 'implicit_top' and (i != len(fracs) - 1 or len(fracs) < 2):
            how = 'radius'                       # only the top layer may leave its geometry to the world radius
        if stack_style:
            how = 'radius' if i == 0 else 'thickness'
        if how in ('radius', 'both'):
            layer['radius'] = R * f
        if how in ('thickness', 'both'):
            layer['thickness'] = R * f - R * prev
        if d.chance(1, 4):
            layer['slices'] = d.pick([5, 12, 30])
        cfg['layers'][lname] = layer
        prev = f
    if d.chance(1, 6):
        # lengths written as whole numbers (`radius = 600000` in a TOML file is an int): a valid configuration like any other
        ints = [int(round(R * f)) for f in fracs]
        if all(b_ - a_ >= 10 for a_, b_ in zip([0] + ints[:-1], ints)):
            cfg['radius'] = ints[-1]
            lo_i = 0
            for i, ri in enumerate(ints):
                layer = cfg['layers']['L%d' % i]
                if layer.get('radius') is not None:
                    layer['radius'] = ri
                if layer.get('thickness') is not None:
                    layer['thickness'] = ri - lo_i
                lo_i = ri
            R = float(ints[-1])
            fracs = [ri / R for ri in ints]
            cfg['_int_lengths'] = True
    cfg['_mass_given'] = False
    if d.chance(1, 4):
        # explicit world mass (then layer masses need not add up to it)
        cfg['mass'] = 4.0 / 3.0 * math.pi * R ** 3 * d.pick([3000.0, 5500.0])
        cfg['_mass_given'] = True
    lo = 0.0
    for i, f in enumerate(fracs):
        layer = cfg['layers']['L%d' % i]
        mode, dens = layer.pop('_mass_mode'), layer.pop('_dens')
        vol = 4.0 / 3.0 * math.pi * ((R * f) ** 3 - (R * lo) ** 3)
        if mode == 'mass_frac' and not cfg['_mass_given']:
            mode = 'density'
        if mode == 'mass':
            layer['mass'] = dens * vol
        elif mode == 'mass_frac':
            layer['mass_frac'] = dens * vol / cfg['mass']
        else:
            layer[mode] = dens
        lo = f
    if d.chance(1, 3):
        cfg['force_spin_sync'] = d.chance(1, 2)
    if d.chance(1, 4):
        cfg['tides_on'] = d.chance(1, 2)
    return cfg


_SHIPPED_MASS = {}
_SHIPPED_STYLE = {}


def _style_of_config(cfg):
    """{layer name: set of the geometric keys ('radius', 'thickness') this configuration PRESCRIBES for it}."""
    return {name: {k for k in ('radius', 'thickness') if lc.get(k) is not None} for name, lc in (cfg.get('layers') or {}).items()}


def shipped_style(name, world):
    if name not in _SHIPPED_STYLE:
        ans = None
        try:
            import tomllib
            import TidalPy
            with open(os.path.join(os.path.dirname(TidalPy.__file__), 'WorldPack', name + '.toml'), 'rb') as f:
                ans = _style_of_config(tomllib.load(f))
        except Exception:
            ans = None
        if ans is None:
            ans = _style_of_config(world.config)
        _SHIPPED_STYLE[name] = ans
    return {k: set(v) for k, v in _SHIPPED_STYLE[name].items()}


def derived_style(parent_style, nc):
    out = {k: set(v) for k, v in (parent_style or {}).items()}
    for lname, over in ((nc or {}).get('layers') or {}).items():
        if not isinstance(over, dict):
            continue
        st = out.setdefault(lname, set())
        for k in ('radius', 'thickness'):
            if k in over:
                if over[k] is None:
                    st.discard(k)
                else:
                    st.add(k)
    return out


def shipped_mass_given(name, world):
    """Does the shipped configuration prescribe the world's mass?  Read from the configuration FILE (not from the built
    world's config, which is what a builder bug would have written to)."""
    if name in _SHIPPED_MASS:
        return _SHIPPED_MASS[name]
    ans = None
    try:
        import tomllib
        import TidalPy
        path = os.path.join(os.path.dirname(TidalPy.__file__), 'WorldPack', name + '.toml')
        with open(path, 'rb') as f:
            ans = tomllib.load(f).get('mass') is not None
    except Exception:
        ans = None
    if ans is None:
        ans = world.config.get('mass') is not None
    _SHIPPED_MASS[name] = ans
    return ans


def gen_plan(seed, tier):
    d = Draw(seed)
    n_ops = d.between(2, 10)
    ops = []
    n_worlds = 0
    fresh = 0
    for i in range(n_ops):
        kind = d.weighted([('build', 3), ('build_cfg', 2), ('derive', 5), ('scale', 3)]) if n_worlds else d.pick(['build', 'build_cfg'])
        if kind == 'build':
            ops.append({'op': 'build', 'name': d.pick(SHIPPED + LAYERED)})
        elif kind == 'build_cfg':
            cfg = gen_config(d, i)
            ops.append({'op': 'build_cfg', 'cfg': cfg})
        elif kind == 'derive':
            parent = d.below(n_worlds)
            nc_kind = d.weighted([('empty', 4), ('same_name', 2), ('new_name', 2), ('flag', 2), ('slices', 1), ('tides', 1),
                                  ('tides_nested', 1), ('earlier_name', 1), ('layer_geometry', 3), ('move_core', 2), ('layer_density', 2),
                                  ('world_mass', 1), ('layer_flag', 1), ('withdraw_mass', 1),
                                  ('respecify_thickness', 1), ('grow_world', 1)])
            nn_kind = d.weighted([('none', 5), ('parent_name', 2), ('parent_config_name', 1), ('fresh', 2)])
            fresh += 1
            ops.append({'op': 'derive', 'parent': parent, 'new_config': nc_kind, 'new_name': nn_kind, 'tag': fresh,
                        'value': d.below(4)})
        else:
            parent = d.below(n_worlds)
            fresh += 1
            factor = d.pick([0.1, 0.25, 0.5, 0.9, 1.0, 1.1, 2.0, 3.7, 10.0]) if d.chance(2, 3) else round(10 ** d.uniform(-1.0, 1.0), 6)
            ops.append({'op': 'scale', 'parent': parent, 'factor': factor,
                        'new_name': d.weighted([('none', 3), ('fresh', 1), ('parent_name', 1)]), 'tag': fresh})
        n_worlds += 1
    return {'engine': 'worldchain', 'seed': seed, 'ops': ops}


class WorldChainEngine(EngineBase):
    name = 'worldchain'
    fault_note = 'the property has no fault clause: no fault is injected; the explored dimension is the chain of builder calls (counts under ops); termination is decided by a line budget'
    source_files = ['TidalPy/structures/world_builder/world_builder.py', 'TidalPy/structures/world_builder/config_handler.py',
                    'TidalPy/structures/physical.py', 'TidalPy/structures/world_types/layered.py',
                    'TidalPy/structures/layers/basic.py', 'TidalPy/structures/layers/helper.py', 'TidalPy/utilities/dictionary_utils.py']

    def prepare(self, tier):
        t = tp()
        # reference snapshots of the shipped worlds: the first build of each in this process
        self.reference = {}
        for name in SHIPPED:
            try:
                self.reference[name] = snapshot(t['build_world'](name))
            except Exception as e:   # a shipped world that cannot be built is reported by the runs that use it
                self.reference[name] = ('raises', type(e).__name__)

    def tier_config(self, tier):
        if tier == 'quick':
            return {'runs': 4000, 'budget_s': 60.0, 'job_cap_s': 300.0, 'determinism_seeds': 10, 'shrink_budget': 150}
        return {'runs': 300000, 'budget_s': 1200.0, 'job_cap_s': 300.0, 'determinism_seeds': 40, 'shrink_budget': 300}

    def gen_plan(self, seed, tier):
        return gen_plan(seed, tier)

    def plan_size(self, plan):
        return len(plan['ops']) * 100 + sum(len(o.get('cfg', {}).get('layers', {})) * 10 for o in plan['ops'])

    def shrink_candidates(self, plan):
        ops = plan['ops']
        # drop an op; re-index parents that pointed past it
        for i in reversed(range(len(ops))):
            if len(ops) <= 1:
                break
            new_ops = []
            ok = True
            for j, op in enumerate(ops):
                if j == i:
                    continue
                op = copy.deepcopy(op)
                if 'parent' in op:
                    if op['parent'] == i:
                        ok = False
                        break
                    if op['parent'] > i:
                        op['parent'] -= 1
                new_ops.append(op)
            if ok and new_ops and new_ops[0]['op'] in ('build', 'build_cfg'):
                yield {**plan, 'ops': new_ops}
        for i, op in enumerate(ops):
            if op['op'] == 'build_cfg':
                new = copy.deepcopy(plan)
                new['ops'][i] = {'op': 'build', 'name': 'io_simple'}
                yield new
                layers = op['cfg']['layers']
            if op['op'] == 'derive':
                if op['new_config'] != 'empty':
                    new = copy.deepcopy(plan)
                    new['ops'][i]['new_config'] = 'empty'
                    yield new
                if op['new_name'] != 'none':
                    new = copy.deepcopy(plan)
                    new['ops'][i]['new_name'] = 'none'
                    yield new
            if op['op'] == 'scale' and op['factor'] != 2.0:
                new = copy.deepcopy(plan)
                new['ops'][i]['factor'] = 2.0
                yield new
            if op['op'] == 'build' and op['name'] != 'io_simple':
                new = copy.deepcopy(plan)
                new['ops'][i]['name'] = 'io_simple'
                yield new

    # ------------------------------------------------------------------------------------------
    def run_plan(self, plan):
        t = tp()
        counters = {}
        violations = []
        trace = []
        harness_errors = []
        worlds = []       # (world, snapshot, meta)
        style = {}        # id(world) -> which geometric keys the USER prescribed per layer along the chain (harness model)
        given = {}        # id(world) -> True when the USER prescribed the world's mass somewhere along its chain (harness model;
        #                   the world's own config is not trusted for this: a builder that writes a mass into it is the bug)
        stack_info = {}   # id(world) -> description of a world whose upper layers are stacked by thickness
        inputs = []       # (dict object handed to a builder, deep copy taken before the call, description)
        max_lines = 0

        def bump(k, n=1):
            counters[k] = counters.get(k, 0) + n

        def viol(clause, cls, message, **sig):
            s = {'clause': clause, 'class': cls}
            s.update(sig)
            violations.append({'property': 'C16', 'clause': clause, 'class': cls, 'signature': s, 'message': message})

        for i, op in enumerate(plan['ops']):
            label = self._label(op)
            bump('op:' + op['op'])
            parent = None
            call = None
            mass_given = None
            if op['op'] == 'build':
                call = lambda: t['build_world'](op['name'])
            elif op['op'] == 'build_cfg':
                cfg = {k: v for k, v in copy.deepcopy(op['cfg']).items() if not k.startswith('_')}
                inputs.append((cfg, copy.deepcopy(cfg), 'config handed to build_world at step %d' % i))
                mass_given = op['cfg'].get('_mass_given')
                call = lambda: t['build_world'](op['cfg'].get('_build_name') or cfg['name'], cfg)
            else:
                if not worlds:
                    continue
                parent = worlds[op['parent'] % len(worlds)]
                pw = parent[0]
                if op['new_name'] == 'none':
                    new_name = None
                elif op['new_name'] == 'parent_name':
                    new_name = pw.name
                elif op['new_name'] == 'parent_config_name':
                    new_name = pw.config.get('name', pw.name)
                else:
                    new_name = 'Fresh_%d' % op['tag']
                if op['op'] == 'derive':
                    if op['new_config'] == 'earlier_name':
                        op = dict(op, _earlier_name=worlds[op['value'] % len(worlds)][0].name)
                    if op['new_config'] == 'move_core':
                        op = dict(op, _stack_info=stack_info.get(id(pw)))
                    nc = self._new_config(op, pw)
                    inputs.append((nc, copy.deepcopy(nc), 'new_config handed to build_from_world at step %d' % i))
                    call = lambda: t['build_from_world'](pw, nc, new_name)
                else:
                    if not hasattr(pw, 'layers') or 'layers' not in pw.config:
                        trace.append('%2d %s -> skipped (parent is not layered)' % (i, label))
                        bump('probe:scale_skipped_not_layered')
                        worlds.append(parent)
                        continue
                    call = lambda: t['scale_from_world'](pw, new_name=new_name, radius_scale=op['factor'])
            try:
                new_world, lines = run_budgeted(call)
                max_lines = max(max_lines, lines)
            except BudgetExceeded:
                trace.append('%2d %s -> DID NOT TERMINATE within %d builder line events' % (i, label, LINE_BUDGET))
                viol('terminates', 'line-budget:%s' % op['op'],
                     'step %d %s did not return within %d line events of the world-builder code (a normal call uses a few thousand); '
                     'chain so far: %s' % (i, label, LINE_BUDGET, ' -> '.join(w[2] for w in worlds)), op=op['op'])
                break
            except Exception as e:
                trace.append('%2d %s -> raised %s: %s' % (i, label, type(e).__name__, str(e)[:100]))
                bump('probe:builder_raised_' + type(e).__name__)
                if op.get('new_config') == 'layer_geometry':
                    # a contradictory geometry override may legitimately be refused; the inputs must still be intact
                    for (obj, before, desc) in inputs:
                        dmsg = first_difference(before, obj)
                        if dmsg:
                            viol('no-mutation', 'input-dict-mutated', 'step %d %s (which raised) changed the %s: %s' % (i, label, desc, dmsg), op=op['op'])
                            break
                    worlds.append(parent)
                    if violations:
                        break
                    continue
                # a builder that refuses a configuration is not a bookkeeping violation by itself, but for shipped worlds,
                # empty derivations and scalings of valid worlds it must not happen
                viol('builds', 'raised:%s:%s' % (op['op'], type(e).__name__),
                     'step %d %s raised %s: %s; chain so far: %s' % (i, label, type(e).__name__, str(e)[:200], ' -> '.join(w[2] for w in worlds)),
                     op=op['op'], exception=type(e).__name__)
                break
            trace.append('%2d %s -> %s (%s)' % (i, label, new_world.name, type(new_world).__name__))
            if op['op'] == 'build_cfg' and op['cfg'].get('_stack_style') and hasattr(new_world, 'layers'):
                ls = list(new_world)
                stack_info[id(new_world)] = {'core_name': ls[0].name, 'core_radius': ls[0].radius,
                                             'upper_thickness_sum': sum(L.thickness for L in ls[1:])}
            elif op['op'] == 'derive' and op.get('new_config') in ('empty', 'same_name', 'new_name', 'flag', 'tides', 'tides_nested', 'earlier_name', 'layer_flag', 'layer_density', 'world_mass') \
                    and id(parent[0]) in stack_info:
                stack_info[id(new_world)] = stack_info[id(parent[0])]      # the description is inherited unchanged
            meta = '%s#%d' % (new_world.name, len(worlds))
            # ---- invariants of the new world ----
            if op['op'] == 'build':
                style[id(new_world)] = shipped_style(op['name'], new_world) if hasattr(new_world, 'layers') else {}
            elif op['op'] == 'build_cfg':
                style[id(new_world)] = _style_of_config(op['cfg'])
            elif op['op'] == 'derive':
                style[id(new_world)] = derived_style(style.get(id(parent[0])), nc if isinstance(nc, dict) else {})
            else:
                style[id(new_world)] = {k: set(v) for k, v in style.get(id(parent[0]), {}).items()}
            judge_geometry = op.get('new_config') != 'layer_geometry'
            if not judge_geometry and isinstance(nc, dict) and nc.get('layers') and hasattr(parent[0], 'layers'):
                # a one-key override of a layer's radius IS a complete, consistent description when nothing the user ever
                # prescribed contradicts it: no layer of the chain was given both a radius and a thickness, the layer is not
                # the top one and stays above the layer below it.  (Keys that the library itself wrote into a derived
                # configuration are not the user's prescription; if they contradict the override, that is the library's bug.)
                (lname, over), = list(nc['layers'].items())
                pl = list(parent[0])
                names = [L.name for L in pl]
                if set(over) == {'radius'} and lname in names and names.index(lname) < len(names) - 1 \
                        and all(len(v) <= 1 for v in style[id(new_world)].values()) \
                        and all(style[id(new_world)].get(n_) == {'radius'} for n_ in names[names.index(lname):names.index(lname) + 2]):
                    k_ = names.index(lname)
                    below = pl[k_ - 1].radius if k_ > 0 else 0.0
                    if over['radius'] > below * (1.0 + 1e-9):
                        judge_geometry = True
                        bump('probe:radius_override_judged')
            if op['op'] == 'build':
                mass_given = shipped_mass_given(op['name'], new_world)
            elif op['op'] == 'derive':
                mass_given = given.get(id(parent[0]), False) or (isinstance(nc, dict) and nc.get('mass') is not None)
                if isinstance(nc, dict) and 'mass' in nc and nc['mass'] is None:
                    mass_given = False                         # the derivation withdrew the prescription
            elif op['op'] == 'scale':
                mass_given = given.get(id(parent[0]), False)
            given[id(new_world)] = bool(mass_given)
            if judge_geometry:
                self._geometry(new_world, i, label, bool(mass_given), viol, bump)
            if op['op'] == 'build':
                ref = self.reference.get(op['name'])
                if isinstance(ref, dict):
                    dmsg = first_difference(ref, snapshot(new_world))
                    if dmsg:
                        viol('builder-history-independent', 'shipped-world-differs',
                             'step %d %s: the shipped world was built differently from its first build in this process: %s; chain so far: %s'
                             % (i, label, dmsg, ' -> '.join(w[2] for w in worlds)), world=op['name'])
            if parent is not None:
                pw = parent[0]
                if new_world.name == pw.name:
                    viol('distinct-name', 'same-name-as-parent',
                         'step %d %s returned a world named %r, the same as its parent' % (i, label, new_world.name),
                         new_name=op['new_name'], new_config=op.get('new_config', ''))
                if op['op'] == 'scale':
                    self._scaling(pw, new_world, op['factor'], i, label, viol, bump)
                if op['op'] == 'derive' and op['new_config'] in ('empty', 'same_name', 'new_name', 'earlier_name', 'tides_nested', 'flag', 'tides') \
                        or (op['op'] == 'derive' and op['new_config'] == 'layer_flag' and op['tag'] % 4 in (0, 1)) \
                        or (op['op'] == 'derive' and op['new_config'] == 'respecify_thickness'):
                    self._same_geometry(pw, new_world, i, label, viol, exact=op['new_config'] != 'respecify_thickness')
            # ---- non-mutation of everything that existed before ----
            for (w, snap, m) in worlds:
                dmsg = first_difference(snap, snapshot(w))
                if dmsg:
                    viol('no-mutation', 'earlier-world-mutated', 'step %d %s changed the earlier world %s: %s' % (i, label, m, dmsg), op=op['op'])
                    break
            for (obj, before, desc) in inputs:
                dmsg = first_difference(before, obj)
                if dmsg:
                    viol('no-mutation', 'input-dict-mutated', 'step %d %s changed the %s: %s' % (i, label, desc, dmsg), op=op['op'])
                    break
            if op.get('new_config') == 'layer_geometry':
                worlds.append(parent)        # the child of a geometry override is not used as a parent later
            else:
                worlds.append((new_world, snapshot(new_world), meta))
            if violations:
                break
        n_derivations = sum(1 for o in plan['ops'] if o['op'] in ('derive', 'scale'))
        dig = jdigest([plan['ops'], trace, [(v['clause'], v['class']) for v in violations]])
        depth = self._depth(plan['ops'])
        return {'violations': violations, 'digest': dig, 'key': jdigest(plan['ops']), 'nontrivial': n_derivations >= 1,
                'counters': counters, 'sets': {'chain_shapes': [jdigest([(o['op'], o.get('parent'), o.get('new_name'), o.get('new_config')) for o in plan['ops']])]},
                'harness_errors': harness_errors, 'trace': trace, 'steps': len(worlds),
                'sample': {'ops': [self._label(o) for o in plan['ops']], 'worlds': [w[2] for w in worlds]},
                'maxima': {'chain_depth': depth, 'builder_line_events_per_call': max_lines, 'worlds_in_pool': len(worlds)}}

    @staticmethod
    def _depth(ops):
        depth = []
        for op in ops:
            if 'parent' in op and depth:
                depth.append(depth[op['parent'] % len(depth)] + 1)
            else:
                depth.append(0)
        return max(depth) if depth else 0

    @staticmethod
    def _new_config(op, pw):
        k = op['new_config']
        if k == 'empty':
            return {}
        if k == 'same_name':
            return {'name': pw.name}
        if k == 'new_name':
            return {'name': 'Renamed_%d' % op['tag']}
        if k == 'flag':
            return [{'force_spin_sync': False}, {'albedo': 0.5}, {'emissivity': 0.8}, {'force_spin_sync': True}][op['value'] % 4]
        if k == 'tides':
            return {'tides_on': bool(op['value'] % 2)}
        if k == 'tides_nested':
            return {'tides': {'eccentricity_truncation_lvl': [2, 4, 6, 8][op['value'] % 4]}, 'tides_on': True}
        if k == 'move_core':
            # only meaningful for a world whose upper layers are stacked by thickness: a new core radius and the matching
            # world radius describe a consistent, fully determined geometry (core, then the same thicknesses on top)
            info = op.get('_stack_info')
            if info:
                f = [0.8, 1.1, 1.25, 0.95][op['value'] % 4]
                new_core = info['core_radius'] * f
                return {'radius': new_core + info['upper_thickness_sum'], 'layers': {info['core_name']: {'radius': new_core}}}
            return {}
        if k == 'layer_geometry':
            # overrides one geometric key of one layer.  The inherited counterpart (thickness vs radius) may then contradict
            # it, so nothing is demanded of the CHILD's geometry; the clause under test is that the inputs are not mutated.
            if 'layers' in pw.config and pw.config['layers'] and hasattr(pw, 'layers'):
                names = list(pw.config['layers'].keys())
                lname = names[op['value'] % len(names)]
                layer = [L for L in pw if L.name == lname]
                if layer:
                    if op['tag'] % 2:
                        return {'layers': {lname: {'radius': layer[0].radius * 0.97}}}
                    return {'layers': {lname: {'thickness': layer[0].thickness * 0.97}}}
            return {}
        if k == 'layer_density':
            # a different material in one layer: geometry untouched, the layer's (and, unless the user prescribed a world
            # mass somewhere along the chain, the world's) mass follows
            if 'layers' in pw.config and pw.config['layers'] and hasattr(pw, 'layers'):
                names = list(pw.config['layers'].keys())
                lname = names[op['value'] % len(names)]
                lcfg = pw.config['layers'][lname]
                key = 'density' if lcfg.get('density') is not None else ('density_bulk' if lcfg.get('density_bulk') is not None else None)
                if key is not None:
                    return {'layers': {lname: {key: [4500.0, 2000.0, 9000.0, 1200.0][op['tag'] % 4]}}}
            return {}
        if k == 'withdraw_mass':
            # None is the only way a derivation can withdraw something its parent prescribes (a merge cannot delete a key);
            # everywhere in the builder a None entry means the same as a missing one
            if 'layers' in pw.config and pw.config['layers'] and hasattr(pw, 'layers') and \
                    not any(lc.get('mass_frac') is not None for lc in pw.config['layers'].values()):
                return {'mass': None}
            return {}
        if k == 'respecify_thickness':
            # the same layer described by its thickness instead of its radius: geometry must come out unchanged
            if 'layers' in pw.config and pw.config['layers'] and hasattr(pw, 'layers'):
                names = list(pw.config['layers'].keys())
                lname = names[op['value'] % len(names)]
                layer = [L for L in pw if L.name == lname]
                if layer:
                    return {'layers': {lname: {'radius': None, 'thickness': float(layer[0].thickness)}}}
            return {}
        if k == 'grow_world':
            # a larger world whose top layer is told to follow the world radius
            if 'layers' in pw.config and len(pw.config['layers']) >= 2 and hasattr(pw, 'layers'):
                top = list(pw.config['layers'].keys())[-1]
                return {'radius': float(pw.radius) * [1.12, 1.5, 1.01, 2.0][op['value'] % 4], 'layers': {top: {'radius': None, 'thickness': None}}}
            return {}
        if k == 'layer_flag':
            # a non-geometric key of one layer
            if 'layers' in pw.config and pw.config['layers'] and hasattr(pw, 'layers'):
                names = list(pw.config['layers'].keys())
                lname = names[op['value'] % len(names)]
                return {'layers': {lname: [{'is_tidal': True}, {'is_tidal': False}, {'use_bulk_density': True}, {'slices': 17}][op['tag'] % 4]}}
            return {}
        if k == 'world_mass':
            # from here on the user prescribes the world's mass
            return {'mass': float(pw.mass) * [1.3, 0.7, 1.0, 2.0][op['value'] % 4]}
        if k == 'earlier_name':
            # ask for the name an EARLIER world of the pool already has (any other world, not necessarily the parent)
            return {'name': op.get('_earlier_name', pw.name)}
        if k == 'slices':
            if 'layers' in pw.config and pw.config['layers']:
                top = list(pw.config['layers'].keys())[-1]
                return {'layers': {top: {'slices': [12, 25, 40, 60][op['value'] % 4]}}}
            return {'slices': [12, 25, 40, 60][op['value'] % 4]}
        return {}

    # ------------------------------------------------------------------------------------------
    def _geometry(self, w, i, label, mass_given, viol, bump):
        bump('probe:worlds_checked')
        R, M = w.radius, w.mass
        if R is None or M is None:
            viol('geometry', 'radius-or-mass-missing', 'step %d %s: world %s has radius=%r mass=%r' % (i, label, w.name, R, M))
            return
        g = getattr(w, 'gravity_outer', None)
        if g is None or rel(g, G * M / R ** 2) > 1e-12:
            viol('geometry', 'surface-gravity', 'step %d %s: gravity_outer=%r but G M/R^2=%r' % (i, label, g, G * M / R ** 2))
        if not hasattr(w, 'layers'):
            return
        bump('probe:layered_worlds_checked')
        layers = list(w)
        prev = 0.0
        for k, L in enumerate(layers):
            if rel(L.radius_inner + 1.0, prev + 1.0) > 1e-12:
                viol('geometry', 'layers-not-contiguous',
                     'step %d %s: layer %s inner radius %r != radius of the layer below %r' % (i, label, L.name, L.radius_inner, prev))
                return
            prev = L.radius
        if rel(prev, R) > 1e-12:
            viol('geometry', 'top-radius', 'step %d %s: top layer radius %r != world radius %r' % (i, label, prev, R))
        vol = sum(L.volume for L in layers)
        if rel(vol, w.volume) > 1e-9:
            viol('geometry', 'volumes-do-not-sum', 'step %d %s: layer volumes sum to %r, world volume %r' % (i, label, vol, w.volume))
        radii = np.asarray(w.radii)
        if radii.size < 1 or not np.all(np.diff(radii) > 0):
            bad = int(np.argmax(np.diff(radii) <= 0)) if radii.size > 1 else 0
            viol('geometry', 'radii-not-increasing', 'step %d %s: world radial slices are not strictly increasing near index %d: %s'
                 % (i, label, bad, radii[max(0, bad - 1):bad + 3]))
        mb = np.asarray(w.mass_below_slices)
        if np.any(np.diff(mb) < 0):
            viol('geometry', 'enclosed-mass-decreases', 'step %d %s: mass_below_slices decreases with radius' % (i, label))
        if not mass_given:
            msum = sum(L.mass for L in layers)
            if rel(msum, M) > 1e-9:
                viol('geometry', 'masses-do-not-sum', 'step %d %s: layer masses sum to %r, world mass %r (mass derived from layers)' % (i, label, msum, M))
            bump('probe:mass_derived_from_layers')
        else:
            bump('probe:mass_given_explicitly')

    def _scaling(self, pw, cw, f, i, label, viol, bump):
        bump('probe:scalings_checked')
        if rel(cw.radius, f * pw.radius) > 1e-12:
            viol('scaling', 'world-radius', 'step %d %s: scaled radius %r != %g x %r' % (i, label, cw.radius, f, pw.radius))
            return
        pl, cl = list(pw), list(cw)
        if len(pl) != len(cl):
            viol('scaling', 'layer-count', 'step %d %s: %d layers became %d' % (i, label, len(pl), len(cl)))
            return
        for a, b in zip(pl, cl):
            for attr in ('radius', 'thickness', 'radius_inner'):
                va, vb = getattr(a, attr), getattr(b, attr)
                if rel(vb + 1.0, f * va + 1.0) > 1e-12 and abs(vb - f * va) > 1e-6:
                    viol('scaling', 'layer-length', 'step %d %s: layer %s %s %r != %g x %r' % (i, label, a.name, attr, vb, f, va))
                    return
            if rel(b.volume / cw.volume, a.volume / pw.volume) > 1e-9:
                viol('scaling', 'volume-fraction', 'step %d %s: layer %s volume fraction %r != %r' % (i, label, a.name, b.volume / cw.volume, a.volume / pw.volume))
                return
        ra, rb = np.asarray(pw.radii), np.asarray(cw.radii)
        if ra.shape != rb.shape or not np.allclose(rb, f * ra, rtol=1e-12, atol=0.0):
            viol('scaling', 'radial-slices', 'step %d %s: the radial slices are not the parent\'s times %g' % (i, label, f))

    def _same_geometry(self, pw, cw, i, label, viol, exact=True):
        if exact:
            differs = pw.radius != cw.radius or (hasattr(pw, 'layers') and [L.radius for L in pw] != [L.radius for L in cw])
        else:
            # the same geometry described differently (radius = radius below + thickness) is recomputed: equal to rounding
            differs = rel(pw.radius, cw.radius) > 1e-12 or (hasattr(pw, 'layers') and (
                len(list(pw)) != len(list(cw)) or any(rel(a.radius, b.radius) > 1e-12 for a, b in zip(pw, cw))))
        if differs:
            viol('derivation', 'geometry-changed', 'step %d %s: deriving with a configuration that does not touch geometry changed the radii' % (i, label))
        if pw.mass is not None and cw.mass is not None and rel(pw.mass, cw.mass) > 1e-12:
            viol('derivation', 'mass-changed', 'step %d %s: deriving with a configuration that does not touch geometry changed the mass %r -> %r' % (i, label, pw.mass, cw.mass))

    @staticmethod
    def _label(op):
        if op['op'] == 'build':
            return 'build_world(%r)' % op['name']
        if op['op'] == 'build_cfg':
            c = op['cfg']
            return 'build_world(%r, <%d layers R=%g%s%s>)' % (c.get('_build_name') or c['name'], len(c['layers']), c['radius'], ' mass given' if c.get('_mass_given') else '', (' config name %r' % c['name']) if c.get('_build_name') else '')
        if op['op'] == 'derive':
            return 'build_from_world(world[%d], new_config=%s, new_name=%s)' % (op['parent'], op['new_config'], op['new_name'])
        return 'scale_from_world(world[%d], radius_scale=%g, new_name=%s)' % (op['parent'], op['factor'], op['new_name'])

    def rule_text(self):
        return ('each evaluation is a seeded chain of 2-10 builder calls over a growing pool of worlds: build_world of a shipped '
                'non-BurnMan world or of a generated 1-6 layer configuration, build_from_world (empty / same name / new name / flags / '
                'slices / tides / one-key geometry, density, mass and None overrides; new_name none, parent\'s name, config name or fresh) and scale_from_world (factor 0.1..10) with parents '
                'drawn from the whole pool. After every call: geometry/mass invariants of the new world, scaling relations, distinct '
                'name, every earlier world and input dict equals its deep snapshot, and the call returned within 10^6 builder line '
                'events. distinct = distinct operation list; non-trivial = at least one derivation or scaling.')

    def components(self):
        return {'real': ['build_world / build_from_world / scale_from_world, config handling, nested_merge, LayeredWorld and layer geometry (all Python, imported from /repo)'],
                'stub': ['none; termination is decided by a sys.settrace line budget on the builder modules']}

    def assumptions(self):
        return ['only layered worlds are scaled (scale_from_world reads config["layers"])',
                'derivations only pass configurations that do not contradict inherited geometry (flags, names, slices, tides)',
                'layer masses must sum to the world mass only when the configuration does not give the world mass explicitly',
                'a builder call that raises for a shipped world, an empty derivation or a scaling is reported (clause "builds")']
