"""Sensitivity of the C06 check on the compiled solver: C-level mutants.

The sandbox has no Cython, but the generated `solver.c` (git-ignored, present next to the pre-built .so) can be recompiled
with gcc.  For each mutant: copy the TidalPy package to a scratch directory, apply one textual replacement to solver.c,
rebuild `solver.*.so` there, and run the C06 engine with the sacrificial worker importing THAT copy (PYTHONPATH).  The
engine must report a violation that is not a known finding.  Nothing under /repo is touched; the scratch copy is removed.

usage (not a registered check):  ./selftest cmutants [runs]
"""
import glob
import json
import os
import shutil
import subprocess
import sys
import sysconfig
import tempfile
import time

from simkit import envsetup
from simkit.draw import subseed

FINALLY_GUARD = '        if (__pyx_v_nondimensionalize) {\n\n          /* "TidalPy/RadialSolver/solver.pyx":974'
FINALLY_GUARD_NORMAL = '      if (__pyx_v_nondimensionalize) {\n\n        /* "TidalPy/RadialSolver/solver.pyx":974'

MUTANTS = [
    ('no-restore-on-exceptional-exit', FINALLY_GUARD, FINALLY_GUARD.replace('if (__pyx_v_nondimensionalize)', 'if (0 && __pyx_v_nondimensionalize)'), 1),
    ('no-restore-on-normal-exit', FINALLY_GUARD_NORMAL, FINALLY_GUARD_NORMAL.replace('if (__pyx_v_nondimensionalize)', 'if (0 && __pyx_v_nondimensionalize)'), 1),
    ('result-exposed-when-unsuccessful',
     ' *         if self.success:             # <<<<<<<<<<<<<<\n *             return np.ascontiguousarray(\n *                 self.full_solution_view,\n*/\n  if (__pyx_v_self->success) {',
     ' *         if self.success:             # <<<<<<<<<<<<<<\n *             return np.ascontiguousarray(\n *                 self.full_solution_view,\n*/\n  if (1) {', 1),
    ('raise_on_fail-never-passed-on', '__pyx_v_verbose, __pyx_v_warnings, __pyx_v_raise_on_fail);', '__pyx_v_verbose, __pyx_v_warnings, 0);', 1),
    ('raise_on_fail-always-on', '__pyx_v_verbose, __pyx_v_warnings, __pyx_v_raise_on_fail);', '__pyx_v_verbose, __pyx_v_warnings, 1);', 1),
    # off by one: the in-place scaling touches one element past the end of each caller array (the restore does not)
    ('scaling-one-element-past-the-end', 'nondimensional_cf_non_dimensionalize_physicals(__pyx_v_total_slices, ',
     'nondimensional_cf_non_dimensionalize_physicals(__pyx_v_total_slices + 1, ', 1),
]


def build(copy_root, label, old, new, count):
    c = os.path.join(copy_root, 'TidalPy', 'RadialSolver', 'solver.c')
    src = open(os.path.join(envsetup.REPO, 'TidalPy', 'RadialSolver', 'solver.c')).read()
    if src.count(old) != count:
        return 'pattern occurs %d times (expected %d)' % (src.count(old), count)
    with open(c, 'w') as f:
        f.write(src.replace(old, new))
    so = glob.glob(os.path.join(copy_root, 'TidalPy', 'RadialSolver', 'solver.*.so'))[0]
    import numpy
    import CyRK
    cmd = ['gcc', '-shared', '-fPIC', '-O1', '-fopenmp', '-DNPY_NO_DEPRECATED_API=NPY_1_7_API_VERSION',
           '-I' + sysconfig.get_paths()['include'], '-I' + numpy.get_include(),
           '-I' + os.path.join(os.path.dirname(CyRK.__file__), 'cy'), '-I' + os.path.join(copy_root, 'TidalPy', 'RadialSolver', 'solver'),
           c, '-o', so]
    p = subprocess.run(cmd, capture_output=True, text=True)
    if p.returncode != 0:
        return 'gcc failed: ' + p.stderr[-400:]
    return None


def main(argv):
    runs = int(argv[0]) if argv else 300
    if not os.path.exists(os.path.join(envsetup.REPO, 'TidalPy', 'RadialSolver', 'solver.c')):
        print('cmutants: solver.c is not present next to the extension; nothing to do')
        return 0
    from sims.solverfaults import engine as E
    eng = E.SolverFaultsEngine('C06')
    scratch = tempfile.mkdtemp(prefix='c06mut-', dir=os.environ.get('TMPDIR'))
    results = []
    try:
        shutil.copytree(os.path.join(envsetup.REPO, 'TidalPy'), os.path.join(scratch, 'TidalPy'),
                        ignore=shutil.ignore_patterns('__pycache__'))
        old_pp = os.environ.get('PYTHONPATH', '')
        for label, old, new, count in MUTANTS:
            t0 = time.time()
            err = build(scratch, label, old, new, count)
            if err:
                print('CMUTANT %-44s NOT-BUILT %s' % (label, err), flush=True)
                results.append({'mutant': label, 'status': 'not-built', 'detail': err})
                continue
            os.environ['PYTHONPATH'] = scratch + os.pathsep + old_pp
            E._WORKER.close()          # the next call starts a worker that imports the mutated copy
            found = None
            for n in range(runs):
                r = eng.job('seed', (subseed(4242, 'C06', n), 'quick'))['result']
                vs = [v for v in r['violations'] if not eng.is_known(v)]
                if vs:
                    found = (n + 1, vs[0]['clause'], vs[0]['class'], vs[0]['message'][:200])
                    break
            E._WORKER.close()
            os.environ['PYTHONPATH'] = old_pp
            if found:
                print('CMUTANT %-44s KILLED after %4d runs  %s|%s  %.0fs' % (label, found[0], found[1], found[2][:60], time.time() - t0), flush=True)
                results.append({'mutant': label, 'status': 'killed', 'runs_needed': found[0], 'clause': found[1], 'class': found[2], 'message': found[3]})
            else:
                print('CMUTANT %-44s SURVIVED %d runs  %.0fs' % (label, runs, time.time() - t0), flush=True)
                results.append({'mutant': label, 'status': 'survived', 'runs': runs})
    finally:
        E._WORKER.close()
        shutil.rmtree(scratch, ignore_errors=True)
    os.makedirs(os.path.join(envsetup.VERIF, 'sensitivity'), exist_ok=True)
    with open(os.path.join(envsetup.VERIF, 'sensitivity', 'C06-cmutants.json'), 'w') as f:
        json.dump({'property': 'C06', 'kind': 'C-level mutants of the generated solver.c, rebuilt with gcc in a scratch copy',
                   'mutants_tried': len(results), 'mutants_killed': sum(1 for r in results if r['status'] == 'killed'), 'results': results}, f, indent=1)
    print('cmutants C06: %d/%d killed' % (sum(1 for r in results if r['status'] == 'killed'), len(results)))
    return 0
