"""Sacrificial worker of the C06 engine.

Reads one JSON operation per line on stdin, executes it against the real compiled radial solver and writes one
JSON reply per line to the reply pipe (fd given in argv[1]).  The driver logs each operation *before* sending it,
so a worker that dies identifies the fatal operation.  Runs with faulthandler and with glibc's
MALLOC_MMAP_THRESHOLD_ / MALLOC_PERTURB_ so that reads of freed solution buffers fail deterministically.
"""
import faulthandler
import gc
import json
import os
import sys

import numpy as np


def build_planet(spec):
    """Arrays of a layered planet from a small spec: layers = [{type, n, rho, mu, eta, K}], radius, r0 frac."""
    R = spec['radius']
    layers = spec['layers']
    nl = len(layers)
    bounds = [R * (i + 1) / nl for i in range(nl)]
    if spec.get('bounds_frac'):
        bounds = [R * f for f in spec['bounds_frac']]
    r_parts, rho_parts, mu_parts, eta_parts, k_parts = [], [], [], [], []
    r_low = R * spec.get('r0_frac', 1e-3)
    for i, L in enumerate(layers):
        n = L['n']
        if i == 0:
            r = np.linspace(r_low, bounds[0], n)
        else:
            r = np.linspace(bounds[i - 1], bounds[i], n + 1)[1:]
        r_parts.append(r)
        rho_parts.append(np.full(r.size, L['rho']))
        mu_parts.append(np.full(r.size, L['mu']))
        eta_parts.append(np.full(r.size, L['eta']))
        k_parts.append(np.full(r.size, L['K']))
    radius = np.ascontiguousarray(np.concatenate(r_parts), dtype=np.float64)
    density = np.ascontiguousarray(np.concatenate(rho_parts), dtype=np.float64)
    mu = np.concatenate(mu_parts)
    eta = np.concatenate(eta_parts)
    bulk = np.ascontiguousarray(np.concatenate(k_parts), dtype=np.float64)
    freq = spec['frequency']
    # Maxwell complex shear modulus, computed here (pure numpy) so the worker does not depend on other TidalPy code
    with np.errstate(all='ignore'):
        cshear = np.where((mu > 0) & (eta > 0), 1.0 / (1.0 / np.where(mu > 0, mu, 1.0) - 1.0j / (np.where(eta > 0, eta, 1.0) * freq)),
                          0.0 + 0.0j).astype(np.complex128)
    # gravity from enclosed mass
    vol = np.empty_like(radius)
    vol[0] = 4.0 / 3.0 * np.pi * radius[0] ** 3
    vol[1:] = 4.0 / 3.0 * np.pi * (radius[1:] ** 3 - radius[:-1] ** 3)
    mass = np.cumsum(vol * density)
    with np.errstate(all='ignore'):
        gravity = np.ascontiguousarray(6.67430e-11 * mass / radius ** 2, dtype=np.float64)
    gravity[~np.isfinite(gravity)] = 0.0
    bulk_density = float(mass[-1] / (4.0 / 3.0 * np.pi * radius[-1] ** 3))
    return {
        'radius': radius, 'density': density, 'gravity': gravity, 'bulk': bulk, 'shear': np.ascontiguousarray(cshear),
        'frequency': freq, 'bulk_density': bulk_density,
        'layer_types': tuple(L['type'] for L in layers),
        'is_static': tuple(bool(L['static']) for L in layers),
        'is_incompressible': tuple(bool(L['incompressible']) for L in layers),
        'upper_radius': tuple(float(b) for b in bounds),
    }


ARRAYS = ('radius', 'density', 'gravity', 'bulk', 'shear')
GUARD = 8                     # elements of guard zone on either side of every caller array
# no value survives being scaled and scaled back by a factor other than one: the smallest subnormal underflows to zero when
# divided, the largest finite number overflows to inf when multiplied (a write that restores "the same" value is still seen)
SENTINELS = (5e-324, 1.7976931348623157e308)


def _guard_pattern(n, dtype):
    z = np.empty(n, dtype=dtype)
    z[0::2] = SENTINELS[0]
    z[1::2] = SENTINELS[1]
    return z


def rehouse(p):
    """Move every caller array into the middle of a larger buffer whose margins hold sentinels.  The solver receives
    ordinary C-contiguous arrays (views); a write one element before the first or after the last entry lands in a margin
    and is seen after the call instead of silently corrupting somebody else's memory."""
    p['_buffers'] = {}
    for name in ARRAYS:
        a = p[name]
        buf = np.empty(a.size + 2 * GUARD, dtype=a.dtype)
        buf[:GUARD] = _guard_pattern(GUARD, a.dtype)
        buf[GUARD + a.size:] = _guard_pattern(GUARD, a.dtype)
        buf[GUARD:GUARD + a.size] = a
        p[name] = buf[GUARD:GUARD + a.size]
        p['_buffers'][name] = buf


def guards_overwritten(p):
    out = []
    for name in ARRAYS:
        buf = p.get('_buffers', {}).get(name)
        if buf is None:
            continue
        n = p[name].size
        want = _guard_pattern(GUARD, buf.dtype)
        for side, zone in (('before', buf[:GUARD]), ('after', buf[GUARD + n:])):
            same = zone.view(np.uint64) == want.view(np.uint64)          # bit-wise
            if zone.dtype.kind == 'c':
                same = same.reshape(-1, 2).all(axis=1)
            bad = np.nonzero(~same)[0]
            if bad.size:
                out.append([name, side, int(bad[0]), repr(zone[int(bad[0])])])
                zone[:] = want
    return out


def deviation_where(now, snap, fin=None):
    """(max deviation in ulp, flat index of the worst entry) over entries that were finite in the snapshot."""
    if now.shape != snap.shape or now.dtype != snap.dtype:
        return float('inf'), 0
    if np.iscomplexobj(snap):
        # an entry counts as an input value only if both of its parts were finite (an injected inf comes back from the
        # scale/unscale round trip as inf+nan*j: garbage in, not a lost input)
        fin_c = np.isfinite(snap)
        dr, ir = deviation_where(np.ascontiguousarray(now.real), np.ascontiguousarray(snap.real), fin_c)
        di, ii = deviation_where(np.ascontiguousarray(now.imag), np.ascontiguousarray(snap.imag), fin_c)
        return (dr, ir) if dr >= di else (di, ii)
    fin = np.isfinite(snap) if fin is None else fin
    if not fin.any():
        return 0.0, 0
    with np.errstate(all='ignore'):
        sp = np.spacing(np.maximum(np.abs(snap), np.finfo(float).tiny))
        d = np.abs(now - snap) / sp
    d = np.where(np.isnan(d), np.inf, d)
    d = np.where(fin, d, 0.0)
    j = int(np.argmax(d))
    return float(d[j]), j


def deviation(now, snap):
    return deviation_where(now, snap)[0]


class State:
    def __init__(self):
        self.planets = {}
        self.snaps = {}
        self.sols = {}
        self.held = {}


def do_solve(st, op, radial_solver):
    p = st.planets[op['planet']]
    snap = st.snaps[op['planet']]
    o = dict(op.get('options', {}))
    args = [p['radius'], p['density'], p['gravity'], p['bulk'], p['shear']]
    mangle = op.get('mangle')
    layer_types, is_static, is_incomp, upper = p['layer_types'], p['is_static'], p['is_incompressible'], p['upper_radius']
    if mangle:
        kind = mangle['kind']
        if kind == 'short_array':
            args[mangle['which'] % 5] = np.ascontiguousarray(args[mangle['which'] % 5][:-1])
        elif kind == 'short_array_tail':
            # a shorter array that ENDS where the caller's buffer ends: if the length check is lost, the solver's loop over
            # total_slices elements runs into the guard zone behind it
            k = (1, 3, 8)[mangle['which'] % 3]
            w = mangle['which'] % 5
            if args[w].size > k + 1:
                args[w] = args[w][k:]
        elif kind == 'wrong_dtype':
            args[mangle['which'] % 5] = args[mangle['which'] % 5].astype(np.float32 if mangle['which'] % 5 < 4 else np.complex64)
        elif kind == 'noncontiguous':
            args[mangle['which'] % 5] = np.repeat(args[mangle['which'] % 5], 2)[::2]
        elif kind == 'aliased_density_gravity':
            args[2] = args[1]                  # the caller hands the same array object in twice
        elif kind == 'layer_type':
            layer_types = tuple(('plasma' if i == mangle['which'] % len(layer_types) else t) for i, t in enumerate(layer_types))
        elif kind == 'tuple_len':
            which = mangle['which'] % 3
            if which == 0:
                is_static = is_static + (True,)
            elif which == 1:
                is_incomp = is_incomp[:-1]
            else:
                upper = upper + (upper[-1] * 1.1,)
        elif kind == 'upper_radius_list':
            upper = list(upper)
        elif kind in ('top_boundary_inside_grid', 'top_boundary_above_grid'):
            # the outermost layer's upper radius does not coincide with the last radial slice
            r = args[0]
            if kind == 'top_boundary_inside_grid' and r.size >= 6:
                upper = tuple(upper[:-1]) + (float(r[-1 - (1 + mangle['which'] % 2)]),)
            else:
                upper = tuple(upper[:-1]) + (float(r[-1]) * 1.05,)
        elif kind in ('empty_interior_layer', 'upper_radius_not_increasing', 'first_upper_radius_zero'):
            # a layer structure whose tuples are consistent in length but describe a degenerate stack
            k = mangle['which'] % len(upper)
            if kind == 'empty_interior_layer':
                # one more layer that owns no radial slice at all: its upper radius repeats the one below
                upper = upper[:k + 1] + (upper[k],) + upper[k + 1:]
                layer_types = layer_types[:k + 1] + (layer_types[k],) + layer_types[k + 1:]
                is_static = is_static[:k + 1] + (is_static[k],) + is_static[k + 1:]
                is_incomp = is_incomp[:k + 1] + (is_incomp[k],) + is_incomp[k + 1:]
            elif kind == 'upper_radius_not_increasing' and len(upper) >= 2:
                lst = list(upper)
                lst[0], lst[1] = lst[1], lst[0]
                upper = tuple(lst)
            else:
                upper = (0.0,) + tuple(upper[1:]) if len(upper) > 1 else upper
    if 'solve_for' in o and o['solve_for'] is not None and not o.pop('solve_for_as_list', False):
        o['solve_for'] = tuple(o['solve_for'])
    o.pop('solve_for_as_list', None)
    bulk_density = p['bulk_density']
    bd = o.pop('_bulk_density', None)
    if bd is not None:
        bulk_density = {'zero': 0.0, 'nan': float('nan'), 'negative': -5500.0, 'tiny': 1.0e-300, 'inf': float('inf')}[bd]
    reply = {'kind': None}
    sol = None
    before = {name: p[name].copy() for name in ARRAYS}    # "original values" = what the caller held when it made the call
    try:
        sol = radial_solver(args[0], args[1], args[2], args[3], args[4], p['frequency'] if 'frequency' not in o else o.pop('frequency'),
                            bulk_density, layer_types, is_static, is_incomp, upper, **o)
        reply['kind'] = 'returned'
    except BaseException as e:   # noqa - every Python-level exception is a legal outcome
        if isinstance(e, (KeyboardInterrupt, SystemExit)):
            raise
        reply['kind'] = 'raised'
        reply['exception'] = type(e).__name__
        reply['message'] = str(e)[:300]
    # inputs restored?
    reply['restore_ulp'] = {name: deviation(p[name], before[name]) for name in ARRAYS}
    worst = max(reply['restore_ulp'], key=lambda k: reply['restore_ulp'][k])
    if reply['restore_ulp'][worst] > 4.0:
        j = deviation_where(p[worst], before[worst])[1]
        reply['restore_example'] = [worst, j, repr(before[worst][j]), repr(p[worst][j])]
        # for every array that moved: magnitude of the original value of its worst entry (to recognise entries that were
        # injected at 1e-300 and merely lost precision in the subnormal range)
        mags = {}
        for name in ARRAYS:
            if reply['restore_ulp'][name] > 4.0 and p[name].shape == before[name].shape:
                jj = deviation_where(p[name], before[name])[1]
                mags[name] = float(abs(before[name][jj]))
        reply['restore_worst_magnitudes'] = mags
        # harness repair: give the caller its arrays back so that later operations of the run stay meaningful
        for name in ARRAYS:
            p[name][...] = before[name]
    g = guards_overwritten(p)
    if g:
        reply['guard_overwritten'] = g
    reply['drift_from_pristine_ulp'] = max(deviation(p[name], snap[name]) for name in ARRAYS)
    if sol is not None:
        reply['type'] = type(sol).__name__
        st.sols[op['sol']] = sol
        reply.update(inspect_solution(sol, p, o))
    return reply


def inspect_solution(sol, p, o):
    out = {}
    try:
        out['success'] = sol.success
        out['success_type'] = type(sol.success).__name__
        out['sol_message'] = str(sol.message)[:200]
        out['message_type'] = type(sol.message).__name__
        exposed = {}
        for name in ('result', 'love', 'k', 'h', 'l'):
            v = getattr(sol, name)
            exposed[name] = None if v is None else [list(np.shape(v)), str(np.asarray(v).dtype), bool(np.all(np.isfinite(np.asarray(v))))]
        sf = o.get('solve_for') or ('tidal',)
        try:
            v = sol[sf[0]] if isinstance(sf[0], str) else None
            exposed['getitem'] = None if v is None else [list(np.shape(v)), str(np.asarray(v).dtype)]
        except Exception as e:
            exposed['getitem'] = 'raised:' + type(e).__name__
        out['exposed'] = exposed
        try:
            out['len'] = len(sol)
        except Exception as e:
            out['len'] = 'raised:' + type(e).__name__
        if sol.success and exposed['love'] is not None:
            out['k_first'] = repr(complex(np.asarray(sol.k).ravel()[0]))
    except BaseException as e:
        if isinstance(e, (KeyboardInterrupt, SystemExit)):
            raise
        out['inspect_error'] = '%s: %s' % (type(e).__name__, str(e)[:200])
    return out


def checksum(a):
    a = np.asarray(a)
    with np.errstate(all='ignore'):
        return [repr(complex(np.nansum(a))), int(np.isnan(a).sum()), list(a.shape)]


def main():
    reply_fd = int(sys.argv[1])
    faulthandler.enable(all_threads=False)
    out = os.fdopen(reply_fd, 'w', buffering=1)
    import warnings
    warnings.filterwarnings('ignore')
    import logging
    import TidalPy  # noqa
    logging.disable(logging.CRITICAL)
    from TidalPy.RadialSolver import radial_solver
    st = State()
    out.write(json.dumps({'ready': True}) + '\n')
    for line in sys.stdin:
        line = line.strip()
        if not line:
            continue
        op = json.loads(line)
        kind = op['op']
        try:
            if kind == 'reset':
                st = State()
                gc.collect()
                reply = {'ok': True}
            elif kind == 'planet':
                st.planets[op['id']] = build_planet(op['spec'])
                rehouse(st.planets[op['id']])
                for poison in op.get('poison', []):
                    arr = st.planets[op['id']][poison['array']]
                    val = {'nan': float('nan'), 'inf': float('inf'), 'zero': 0.0, 'neg': -1.0, 'tiny': 1e-300, 'huge': 1e300}[poison['value']]
                    arr[poison['index'] % arr.size] = val
                st.snaps[op['id']] = {k: st.planets[op['id']][k].copy() for k in ARRAYS}
                reply = {'ok': True, 'slices': int(st.planets[op['id']]['radius'].size)}
            elif kind == 'solve':
                reply = do_solve(st, op, radial_solver)
            elif kind == 'read':
                sol = st.sols.get(op['sol'])
                reply = {'missing': True} if sol is None else inspect_solution(sol, None, {})
            elif kind == 'hold':
                sol = st.sols.get(op['sol'])
                if sol is None or sol.result is None:
                    reply = {'held': False}
                else:
                    arrs = {'result': sol.result, 'love': sol.love, 'k': sol.k}
                    st.held[op['sol']] = (arrs, {k: checksum(v) for k, v in arrs.items()})
                    reply = {'held': True, 'nbytes': int(arrs['result'].nbytes)}
            elif kind == 'drop':
                existed = st.sols.pop(op['sol'], None) is not None
                gc.collect()
                churn = [np.full(op.get('churn', 40000), 7.5) for _ in range(8)]   # allocator churn over the freed region
                del churn
                gc.collect()
                reply = {'dropped': existed}
            elif kind == 'reread':
                h = st.held.get(op['sol'])
                if h is None:
                    reply = {'held': False}
                else:
                    arrs, sums = h
                    now = {k: checksum(v) for k, v in arrs.items()}      # touching freed memory dies right here
                    reply = {'held': True, 'unchanged': now == sums}
            else:
                reply = {'error': 'unknown op'}
        except BaseException as e:
            if isinstance(e, (KeyboardInterrupt, SystemExit)):
                raise
            import traceback
            reply = {'worker_exception': '%s: %s' % (type(e).__name__, str(e)[:300]), 'tb': traceback.format_exc()[-600:]}
        out.write(json.dumps(reply) + '\n')
        out.flush()


if __name__ == '__main__':
    main()
