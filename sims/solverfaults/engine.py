"""C06 engine: fault sequences against the compiled radial solver, observed from outside a sacrificial process."""
import copy
import json
import os
import select
import signal
import subprocess
import sys
import time

from simkit.engine import EngineBase
from simkit.draw import Draw, digest as jdigest
from simkit.shrink import without_chunks
from simkit import envsetup

REPLY_TIMEOUT_S = 25.0
RESTORE_TOL_ULP = 4.0


class Worker:
    """The sacrificial subprocess (one per pool process, restarted when it dies)."""

    def __init__(self):
        self.proc = None
        self.rfd = None
        self.buf = b''
        self.spawned = 0

    def ensure(self):
        if self.proc is not None and self.proc.poll() is None:
            return
        self.close()
        r, w = os.pipe()
        env = dict(os.environ)
        env['MALLOC_MMAP_THRESHOLD_'] = '65536'     # large frees are unmapped at once: use-after-free faults deterministically
        env['MALLOC_PERTURB_'] = '165'              # freed small blocks are scribbled
        env['PYTHONFAULTHANDLER'] = '1'
        self.errlog = open(os.path.join(envsetup.scratch_dir(), 'tmp', 'worker-%d-%d.err' % (os.getpid(), self.spawned)), 'wb')
        self.proc = subprocess.Popen([sys.executable, '-m', 'sims.solverfaults.worker', str(w)], stdin=subprocess.PIPE,
                                     stdout=self.errlog, stderr=self.errlog, pass_fds=(w,), env=env, cwd=envsetup.VERIF)
        os.close(w)
        self.rfd = r
        self.buf = b''
        self.spawned += 1
        first = self._read_reply(180.0)
        if not first or not first[1].get('ready'):
            raise RuntimeError('solver worker failed to start: %r' % (first,))

    def close(self):
        if self.proc is not None:
            try:
                self.proc.kill()
                self.proc.wait(5)
            except Exception:
                pass
        if self.rfd is not None:
            try:
                os.close(self.rfd)
            except OSError:
                pass
        self.proc = None
        self.rfd = None

    def _read_reply(self, timeout):
        """-> ('ok', reply) | ('died', returncode) | ('timeout', None)"""
        deadline = time.monotonic() + timeout
        while True:
            if b'\n' in self.buf:
                line, self.buf = self.buf.split(b'\n', 1)
                return 'ok', json.loads(line.decode())
            left = deadline - time.monotonic()
            if left <= 0:
                return 'timeout', None
            rl, _, _ = select.select([self.rfd], [], [], min(left, 1.0))
            if rl:
                chunk = os.read(self.rfd, 65536)
                if not chunk:
                    rc = self.proc.wait(10)
                    return 'died', rc
                self.buf += chunk
            elif self.proc.poll() is not None:
                # drain
                chunk = os.read(self.rfd, 65536)
                if chunk:
                    self.buf += chunk
                    continue
                return 'died', self.proc.returncode

    def call(self, op, timeout=REPLY_TIMEOUT_S):
        self.ensure()
        try:
            self.proc.stdin.write((json.dumps(op) + '\n').encode())
            self.proc.stdin.flush()
        except (BrokenPipeError, OSError):
            rc = self.proc.wait(10)
            self.close()
            return 'died', rc
        status, reply = self._read_reply(timeout)
        if status == 'timeout':
            self.close()
        elif status == 'died':
            self.close()
        return status, reply


_WORKER = Worker()

LAYER_MATERIALS = {
    'solid': [dict(rho=3300., mu=5.0e10, eta=1.0e20, K=1.0e11), dict(rho=8000., mu=1.0e11, eta=1.0e24, K=2.0e11),
              dict(rho=1000., mu=3.0e9, eta=1.0e15, K=1.0e10)],
    'liquid': [dict(rho=7000., mu=0.0, eta=1.0e6, K=1.0e11), dict(rho=1000., mu=0.0, eta=1.0e3, K=2.0e9)],
}


def gen_planet(d: Draw, lifetime=False):
    nl = d.weighted([(1, 6), (2, 8), (3, 8), (4, 4), (5, 2), (0, 3)])
    many = nl == 0
    if many:
        # finely layered interior models: the solver documents no upper limit on the number of layers
        nl = d.pick([6, 8, 10, 11, 12, 13, 16, 24, 40])
    layers = []
    for i in range(nl):
        t = d.weighted([('solid', 3), ('liquid', 2)])
        if i == nl - 1 and t == 'liquid' and not d.chance(1, 3):
            t = 'solid'                       # a liquid surface layer stays in the mix, but rarer
        mat = dict(d.pick(LAYER_MATERIALS[t]))
        n = d.weighted([(d.between(5, 12), 18), (d.between(13, 60), 9), (d.between(1, 3), 1)]) if not lifetime else 1200
        if many and not lifetime:
            n = d.weighted([(d.between(5, 8), 20), (d.between(1, 3), 1)])
        layers.append(dict(type=t, static=d.chance(1, 2), incompressible=d.chance(1, 10), n=n, **mat))
    spec = {'radius': d.weighted([(1.0e6, 6), (6.0e6, 6), (2.5e7, 6), (1.0e3, 1), (7.0e7, 1)]), 'layers': layers,
            'frequency': d.pick([1.0e-6, 7.27e-5, 4.1e-5, 1.0e-3]),
            'r0_frac': d.weighted([(1.0e-3, 80), (1.0e-5, 19), (0.0, 1)])}
    return spec


def gen_solve(d: Draw, planet_id, sol_id, spec):
    o = {'degree_l': d.weighted([(2, 24), (3, 8), (4, 4), (5, 4), (6, 1), (8, 1), (10, 1), (20, 1)]),
         'use_kamata': d.chance(1, 2),
         'integration_method': d.pick(['RK45', 'RK23', 'DOP853', 'rk45']),
         'nondimensionalize': d.chance(2, 3),
         'raise_on_fail': d.chance(1, 3),
         'max_num_steps': 200000, 'verbose': False, 'warnings': False}
    # swarm: the remaining documented knobs, varied per call
    if d.chance(1, 10):
        o['limit_solution_to_radius'] = d.chance(1, 2)
    if d.chance(1, 4):
        o['scale_rtols_by_layer_type'] = d.chance(1, 2)
    if d.chance(1, 4):
        o['expected_size'] = d.weighted([(7, 3), (50, 3), (5000, 2), (1, 1)])
    if d.chance(1, 6):
        o['integration_atol'] = d.pick([1.0e-6, 1.0e-15])
    sf = d.weighted([(None, 3), (['tidal'], 2), (['loading'], 1), (['free'], 1), (['tidal', 'loading'], 2),
                     (['tidal', 'loading', 'free'], 1)])
    if sf is not None:
        o['solve_for'] = sf
    fault = d.weighted([('none', 8), ('solve_for_unknown', 2), ('solve_for_many', 1), ('solve_for_list', 1), ('solve_for_odd', 1), ('mangle', 3),
                        ('degree', 1), ('frequency', 1), ('steps', 4), ('ram', 1), ('tolerance', 2), ('integrator', 1),
                        ('max_step', 1), ('bulk_density', 1), ('degree_high', 3)])
    op = {'op': 'solve', 'planet': planet_id, 'sol': sol_id, 'options': o, 'fault': fault}
    if fault == 'solve_for_unknown':
        base = list(sf or ['tidal'])
        base.insert(d.below(len(base) + 1), d.pick(['bogus', 'Tidal', '']))
        o['solve_for'] = base
    elif fault == 'solve_for_many':
        o['solve_for'] = ['tidal', 'loading', 'free', 'tidal', 'loading', 'free'][:d.between(6, 6)]
    elif fault == 'solve_for_odd':
        o['solve_for'] = d.pick([['tidal', 'tidal'], ['free', 'loading', 'free'], [], ['tidal', 'loading', 'free', 'tidal'],
                                 ['loading', 'tidal', 'free', 'loading', 'tidal']])
    elif fault == 'solve_for_list':
        o['solve_for'] = list(sf or ['tidal'])
        o['solve_for_as_list'] = True
    elif fault == 'mangle':
        op['mangle'] = {'kind': d.pick(['short_array', 'wrong_dtype', 'noncontiguous', 'layer_type', 'tuple_len', 'upper_radius_list',
                                        'empty_interior_layer', 'empty_interior_layer', 'upper_radius_not_increasing',
                                        'first_upper_radius_zero', 'top_boundary_inside_grid', 'top_boundary_inside_grid',
                                        'top_boundary_above_grid', 'aliased_density_gravity', 'short_array_tail', 'short_array_tail']),
                        'which': d.below(15)}
    elif fault == 'bulk_density':
        o['_bulk_density'] = d.pick(['zero', 'nan', 'negative', 'tiny', 'inf'])
    elif fault == 'degree_high':
        # (r/R)^l underflows in the starting solution: every layer "integrates", the surface system is singular and the
        # failure comes from the collapse phase (ZGESV info != 0) - the one failure exit that is not an integration failure
        o['degree_l'] = d.pick([45, 60, 100, 150])
        o['raise_on_fail'] = d.chance(1, 2)
    elif fault == 'degree':
        o['degree_l'] = d.pick([0, 1])
    elif fault == 'frequency':
        o['frequency'] = d.pick([0.0, -7.27e-5, 1.0e-300])
    elif fault == 'steps':
        o['max_num_steps'] = d.pick([1, 2, 5, 20, 60, 150, 400])
    elif fault == 'ram':
        o['max_ram_MB'] = d.pick([0, 1])
    elif fault == 'tolerance':
        o['integration_rtol'] = d.pick([1.0e-16, 1.0e-14])
        o['integration_atol'] = d.pick([1.0e-18, 1.0e-30])
        o['max_num_steps'] = d.pick([50, 500, 5000])
    elif fault == 'integrator':
        o['integration_method'] = d.pick(['euler', '', 'RK4 5'])
    elif fault == 'max_step':
        o['max_step'] = d.pick([1.0e-9, -1.0, 1.0e30])
    return op


def gen_plan(seed, tier):
    d = Draw(seed)
    lifetime = d.chance(1, 12)
    n_planets = 1 if lifetime else d.weighted([(1, 3), (2, 1)])
    ops = []
    specs = []
    for pid in range(n_planets):
        spec = gen_planet(d, lifetime)
        specs.append(spec)
        poison = []
        if not lifetime and d.chance(1, 4):
            for _ in range(d.between(1, 2)):
                poison.append({'array': d.pick(['radius', 'density', 'gravity', 'bulk', 'shear']), 'index': d.below(10000),
                               'value': d.pick(['nan', 'inf', 'zero', 'neg', 'tiny', 'huge'])})
        ops.append({'op': 'planet', 'id': pid, 'spec': spec, 'poison': poison})
    n_ops = d.between(2, 8)
    sol_ids = []
    for i in range(n_ops):
        pid = d.below(n_planets)
        if lifetime and sol_ids:
            kind = d.weighted([('hold', 3), ('drop', 3), ('reread', 3), ('read', 1), ('solve', 1)])
        else:
            kind = d.weighted([('solve', 7), ('read', 2), ('hold', 1), ('drop', 1), ('reread', 1)]) if sol_ids else 'solve'
        if kind == 'solve':
            sid = len(sol_ids)
            sol_ids.append(sid)
            op = gen_solve(d, pid, sid, specs[pid])
            if lifetime:
                op['options'].update({'max_num_steps': 200000, 'raise_on_fail': False})
                op['fault'] = 'none' if op['fault'] in ('steps', 'tolerance', 'ram') else op['fault']
                if op['fault'] == 'none':
                    op['options'].pop('integration_rtol', None)
            ops.append(op)
        else:
            ops.append({'op': kind, 'sol': d.pick(sol_ids)})
    return {'engine': 'solverfaults', 'seed': seed, 'ops': ops}


class SolverFaultsEngine(EngineBase):
    name = 'solverfaults'
    shrink_time_budget_s = 90.0
    source_files = ['TidalPy/RadialSolver/solver.pyx', 'TidalPy/RadialSolver/boundaries/boundaries.pyx',
                    'TidalPy/RadialSolver/interfaces/interfaces.pyx', 'TidalPy/utilities/dimensions/nondimensional.pyx',
                    'TidalPy/RadialSolver/__init__.py']

    def prepare(self, tier):
        pass    # the solver runs in the sacrificial worker; nothing to import in the driver

    def tier_config(self, tier):
        if tier == 'quick':
            return {'runs': 1200, 'budget_s': 80.0, 'job_cap_s': 600.0, 'determinism_seeds': 8, 'shrink_budget': 60, 'shrink_cap_s': 900.0}
        return {'runs': 60000, 'budget_s': 1500.0, 'job_cap_s': 600.0, 'determinism_seeds': 24, 'shrink_budget': 150, 'shrink_cap_s': 1800.0}

    def gen_plan(self, seed, tier):
        return gen_plan(seed, tier)

    def plan_size(self, plan):
        return len(plan['ops']) * 100 + sum(len(o.get('spec', {}).get('layers', [])) * 10 + len(o.get('poison', [])) * 5 for o in plan['ops'])

    def shrink_candidates(self, plan):
        ops = plan['ops']
        for new_ops in without_chunks(ops, 1):
            if not any(o['op'] == 'planet' for o in new_ops):
                continue
            new = copy.deepcopy(plan)
            new['ops'] = new_ops
            yield new
        for i, op in enumerate(ops):
            if op['op'] == 'planet':
                if op.get('poison'):
                    for j in range(len(op['poison'])):
                        new = copy.deepcopy(plan)
                        del new['ops'][i]['poison'][j]
                        yield new
                layers = op['spec']['layers']
                if len(layers) > 1:
                    for j in range(len(layers)):
                        new = copy.deepcopy(plan)
                        del new['ops'][i]['spec']['layers'][j]
                        yield new
                for j, L in enumerate(layers):
                    if L['n'] > 6:
                        new = copy.deepcopy(plan)
                        new['ops'][i]['spec']['layers'][j]['n'] = 6
                        yield new
                    if L['incompressible']:
                        new = copy.deepcopy(plan)
                        new['ops'][i]['spec']['layers'][j]['incompressible'] = False
                        yield new
            if op['op'] == 'solve':
                o = op['options']
                for key, plain in (('degree_l', 2), ('use_kamata', False), ('integration_method', 'RK45'), ('raise_on_fail', False)):
                    if o.get(key) != plain:
                        new = copy.deepcopy(plan)
                        new['ops'][i]['options'][key] = plain
                        yield new
                if o.get('solve_for') and len(o['solve_for']) > 1 and op.get('fault') == 'none':
                    new = copy.deepcopy(plan)
                    new['ops'][i]['options']['solve_for'] = o['solve_for'][:1]
                    yield new

    # ------------------------------------------------------------------------------------------
    def run_plan(self, plan):
        counters = {}
        violations = []
        trace = []
        replies = []
        harness_errors = []
        known_expected = 0

        def bump(k, n=1):
            counters[k] = counters.get(k, 0) + n

        def viol(clause, cls, message, **sig):
            s = {'clause': clause, 'class': cls}
            s.update(sig)
            violations.append({'property': 'C06', 'clause': clause, 'class': cls, 'signature': s, 'message': message})

        specs = {}
        n_solves = 0
        try:
            status, _ = _WORKER.call({'op': 'reset'}, 180.0)
            if status != 'ok':
                status, _ = _WORKER.call({'op': 'reset'}, 180.0)
        except Exception as e:
            return self._result(plan, [], counters, ['worker cannot start: %s' % e], trace, replies, 0)
        failed_solve_on = {}
        for i, op in enumerate(plan['ops']):
            label = _label(op)
            wire = {k: v for k, v in op.items() if k != 'fault'}
            if op['op'] == 'planet':
                specs[op['id']] = op
            if op['op'] in ('solve', 'hold', 'drop', 'reread', 'read') and op['op'] != 'solve' and False:
                pass
            if op['op'] == 'solve' and op['planet'] not in specs:
                continue
            t0 = time.monotonic()
            try:
                status, reply = _WORKER.call(wire)
            except Exception as e:
                harness_errors.append('worker call failed: %s' % e)
                break
            bump('op:' + op['op'])
            ctx = self._context(op, specs)
            if status == 'died':
                sig = -reply if isinstance(reply, int) and reply < 0 else reply
                signame = signal.Signals(sig).name if isinstance(sig, int) and 0 < sig < 65 else str(reply)
                trace.append('%2d %s -> WORKER DIED (%s)' % (i, label, signame))
                # what exactly a memory-unsafe operation does to the process (which signal, or none) is not deterministic;
                # the event digest records only that it was one
                unsafe = op['op'] == 'reread' or ctx['predicates'].get('expected_size_1') or ctx['predicates'].get('limit_solution_off')
                replies.append(['memory-unsafe operation'] if unsafe else ['died', signame])
                bump('probe:worker_died')
                if op['op'] == 'reread':
                    viol('lifetime', 'reread-after-drop:died',
                         'step %d %s: reading an array handed out by a solution after the solution object was dropped killed the interpreter (%s)'
                         % (i, label, signame), pattern='reread-after-drop', signal=signame)
                else:
                    viol('crash', 'died:%s:%s' % (signame, ctx['stack_class']),
                         'step %d %s killed the interpreter (%s); planet: %s' % (i, label, signame, ctx['stack']),
                         signal=signame, op=op['op'], **ctx['predicates'])
                break
            if status == 'timeout':
                trace.append('%2d %s -> NO REPLY within %.0f s' % (i, label, REPLY_TIMEOUT_S))
                replies.append(['timeout'])
                bump('probe:worker_hang')
                viol('hang', 'hang:%s' % ('r0_bad' if ctx['predicates'].get('r0_bad') else ctx['stack_class']),
                     'step %d %s did not answer within %.0f s (solver work is bounded by max_num_steps); planet: %s'
                     % (i, label, REPLY_TIMEOUT_S, ctx['stack']), op=op['op'], **ctx['predicates'])
                break
            if op['op'] == 'reread':
                replies.append(['memory-unsafe operation'] if reply.get('held') else ['nothing held'])
            elif ctx['predicates'].get('expected_size_1') or ctx['predicates'].get('limit_solution_off'):
                replies.append(['memory-unsafe operation'])
            else:
                replies.append(reply)
            if 'worker_exception' in reply and (ctx['predicates'].get('expected_size_1') or ctx['predicates'].get('limit_solution_off')):
                # the worker's own bookkeeping after the call blew up: with these two options the interpreter's heap is
                # corrupted (C06-K9 / K10), which can surface as anything - same finding as an outright crash
                trace.append('%2d %s -> interpreter state corrupted after the call: %s' % (i, label, reply['worker_exception'][:120]))
                viol('crash', 'corrupted:%s' % ctx['stack_class'],
                     'step %d %s left the interpreter corrupted (%s); planet: %s' % (i, label, reply['worker_exception'][:160], ctx['stack']),
                     signal='corrupted', op=op['op'], **ctx['predicates'])
                _WORKER.close()
                break
            if 'worker_exception' in reply:
                harness_errors.append('worker exception at step %d %s: %s %s' % (i, label, reply['worker_exception'], reply.get('tb', '')))
                break
            if op['op'] == 'solve':
                n_solves += 1
                tainted = ctx['predicates'].get('expected_size_1') or ctx['predicates'].get('limit_solution_off')
                if not tainted:
                    self._judge_solve(i, op, label, reply, ctx, viol, bump, trace, failed_solve_on)
                else:
                    # nothing this call reports can be judged: the interpreter's memory may already be corrupted (the
                    # arrays it hands back, the solution object, even the worker's own bookkeeping)
                    trace.append('%2d %s -> returned; not judged (memory-unsafe option, C06-K9/K10)' % (i, label))
                if tainted:
                    # known findings C06-K9 / K10: expected_size=1 corrupts the heap, limit_solution_to_radius=False indexes
                    # past the integrator's own steps - even when the call returns. Nothing observed in this process afterwards can be trusted: end the run and replace the worker.
                    bump('probe:worker_replaced_after_memory_unsafe_option')
                    _WORKER.close()
                    break
            elif op['op'] == 'reread':
                trace.append('%2d %s -> %s' % (i, label, reply))
                if reply.get('held'):
                    bump('probe:reread_of_held_result')
                    if reply.get('unchanged') is False:
                        viol('lifetime', 'reread-after-drop:changed',
                             'step %d %s: the contents of an array handed out by solution.result changed after the solution object was dropped'
                             % (i, label), pattern='reread-after-drop', signal='none')
            elif op['op'] == 'read':
                trace.append('%2d %s -> success=%s exposed=%s' % (i, label, reply.get('success'), _exposed_brief(reply)))
                if not reply.get('missing'):
                    self._judge_protocol(i, label, reply, {}, viol, bump)
            else:
                trace.append('%2d %s -> %s' % (i, label, {k: v for k, v in reply.items() if k != 'slices'} if op['op'] != 'planet' else 'ok (%s slices)' % reply.get('slices')))
        return self._result(plan, violations, counters, harness_errors, trace, replies, n_solves)

    def _result(self, plan, violations, counters, harness_errors, trace, replies, n_solves):
        dig = jdigest([plan['ops'], replies])
        return {'violations': violations, 'digest': dig, 'key': jdigest(plan['ops']), 'nontrivial': n_solves >= 1,
                'counters': counters, 'sets': {'exit_paths': [k for k in counters if k.startswith('probe:exit_')]},
                'harness_errors': harness_errors, 'trace': trace, 'steps': len(replies),
                'sample': {'ops': [_label(o) for o in plan['ops']], 'outcomes': trace[-6:]},
                'maxima': {'ops': len(plan['ops'])}}

    @staticmethod
    def _context(op, specs):
        pid = op.get('planet')
        spec = specs.get(pid, {}).get('spec') if pid is not None else None
        if spec is None and specs:
            spec = list(specs.values())[0]['spec']
        preds = {}
        stack = ''
        stack_class = 'n/a'
        if spec:
            top = spec['layers'][-1]
            preds['top_layer'] = '%s-%s' % (top['type'], 'static' if top['static'] else 'dynamic')
            total = sum(L['n'] for L in spec['layers'])
            poisoned_first = any(pz['array'] == 'radius' and pz['index'] % max(total, 1) == 0 and pz['value'] in ('nan', 'zero', 'neg', 'inf')
                                 for pz in (specs.get(pid, {}).get('poison') or []))
            # the first radius is what the outward integration starts from
            preds['r0_bad'] = bool(spec.get('r0_frac') == 0.0 or poisoned_first)
            preds['n_layers'] = len(spec['layers'])
            stack = '/'.join('%s-%s%s(n=%d)' % (L['type'], 'static' if L['static'] else 'dynamic', '-incomp' if L['incompressible'] else '', L['n'])
                             for L in spec['layers']) + ' r0_frac=%g' % spec.get('r0_frac', 0)
            stack_class = 'top-' + preds['top_layer']
        if op.get('options'):
            preds['nondimensionalize'] = bool(op['options'].get('nondimensionalize', True))
            preds['expected_size_1'] = op['options'].get('expected_size') == 1
            preds['limit_solution_off'] = op['options'].get('limit_solution_to_radius') is False
        return {'predicates': preds, 'stack': stack, 'stack_class': stack_class}

    def _judge_solve(self, i, op, label, reply, ctx, viol, bump, trace, failed_solve_on):
        o = op['options']
        if reply['kind'] == 'raised':
            exit_path = 'raised:%s:%s' % (reply['exception'], _msg_class(reply['message']))
            trace.append('%2d %s -> raised %s: %s' % (i, label, reply['exception'], reply['message'][:90]))
        else:
            exit_path = 'returned:%s' % ('success' if reply.get('success') else 'fail:' + _msg_class(reply.get('sol_message', '')))
            trace.append('%2d %s -> returned success=%s message=%r' % (i, label, reply.get('success'), reply.get('sol_message', '')[:80]))
        bump('probe:exit_' + exit_path[:70])
        if op.get('fault') and op['fault'] != 'none':
            bump('fault:' + op['fault'])
        # 2. inputs restored on every exit path
        worst = max(reply['restore_ulp'].items(), key=lambda kv: kv[1])
        if not worst[1] <= RESTORE_TOL_ULP:
            bad = sorted(k for k, v in reply['restore_ulp'].items() if not v <= RESTORE_TOL_ULP)
            cause = 'scaled'
            ex = reply.get('restore_example') or [None, None, '', '']
            mags = reply.get('restore_worst_magnitudes') or {}
            if bad and all(0.0 < mags.get(b_, 1.0) < 1e-290 for b_ in bad) and worst[1] < 1e9:
                # every entry that moved is an injected 1e-300: it passes through the subnormal range while scaled
                cause = 'subnormal-poison'
            viol('inputs-restored', 'not-restored:%s' % (exit_path[:60] if cause == 'scaled' else cause),
                 'step %d %s: after the call (%s) the caller\'s arrays %s differ from their original values (worst: %s by %.3g ulp); '
                 'e.g. %s; planet: %s' % (i, label, exit_path, bad, worst[0], worst[1], reply.get('restore_example'), ctx['stack']),
                 exit=reply['kind'], exception=reply.get('exception', ''), message_prefix=_msg_class(reply.get('message', ''))[:40],
                 nondimensionalize=bool(o.get('nondimensionalize', True)), cause=cause)
        if reply.get('guard_overwritten'):
            g = reply['guard_overwritten']
            viol('inputs-restored', 'wrote-outside-the-array',
                 'step %d %s: the call (%s) wrote outside the caller\'s arrays: %s (guard zones of 8 sentinel elements on either side of '
                 'every input array); planet: %s' % (i, label, exit_path, '; '.join('%s, %s element %d now %s' % tuple(x) for x in g[:3]), ctx['stack']),
                 exit=reply['kind'])
        bump('probe:guard_zones_checked')
        # 3. an unsuccessful solve is REPORTED (success=False + message) unless raise_on_fail was asked for: the solver's own
        # failure exception, or an interpreter-level error escaping from its internals, is not an argument-validation error
        if reply['kind'] == 'raised' and not o.get('raise_on_fail') and \
                reply.get('exception') in ('RuntimeError', 'UnboundLocalError', 'NameError', 'SystemError', 'IndexError', 'KeyError',
                                           'ZeroDivisionError', 'RecursionError', 'StopIteration', 'MemoryError', 'OverflowError'):
            viol('protocol', 'raised-without-raise_on_fail',
                 'step %d %s: raise_on_fail was not requested, yet the call raised %s: %s (an unsuccessful solve must come back as '
                 'success=False with a message; only malformed arguments may raise); planet: %s'
                 % (i, label, reply['exception'], reply.get('message', '')[:120], ctx['stack']), exception=reply['exception'])
        # 1./3. protocol
        if reply['kind'] == 'returned':
            if reply.get('type') != 'RadialSolverSolution':
                viol('protocol', 'wrong-return-type', 'step %d %s returned a %s' % (i, label, reply.get('type')))
            self._judge_protocol(i, label, reply, o, viol, bump)
            if o.get('raise_on_fail') and reply.get('success') is False:
                viol('protocol', 'raise_on_fail-ignored',
                     'step %d %s: raise_on_fail=True but an unsuccessful solve was returned as an object (message %r)'
                     % (i, label, reply.get('sol_message', '')[:100]))

    @staticmethod
    def _judge_protocol(i, label, reply, o, viol, bump):
        if 'inspect_error' in reply:
            viol('protocol', 'inspect-raised', 'step %d %s: reading the solution object raised %s' % (i, label, reply['inspect_error']))
            return
        if reply.get('success_type') != 'bool':
            viol('protocol', 'success-not-bool', 'step %d %s: solution.success is a %s' % (i, label, reply.get('success_type')))
        if reply.get('message_type') != 'str' or not reply.get('sol_message'):
            viol('protocol', 'message-missing', 'step %d %s: solution.message is %r (%s)' % (i, label, reply.get('sol_message'), reply.get('message_type')))
        ex = reply.get('exposed', {})
        if reply.get('success') is False:
            leaked = sorted(k for k, v in ex.items() if v is not None and not (isinstance(v, str) and v.startswith('raised:')))
            if leaked:
                viol('protocol', 'result-exposed-on-failure',
                     'step %d %s: success=False (message %r) but %s expose numeric results' % (i, label, reply.get('sol_message', '')[:80], leaked))
            bump('probe:unsuccessful_solution_objects')
        elif reply.get('success') is True:
            missing = sorted(k for k in ('result', 'love', 'k', 'h', 'l') if ex.get(k) is None)
            if missing:
                viol('protocol', 'result-missing-on-success', 'step %d %s: success=True but %s are None' % (i, label, missing))
            bump('probe:successful_solutions')

    # ------------------------------------------------------------------------------------------
    def rule_text(self):
        return ('each evaluation is a seeded sequence of 2-8 operations sent to a sacrificial interpreter: build a 1-5 (sometimes 6-40) layer planet '
                '(solid/liquid x static/dynamic x (in)compressible, optional NaN/inf/zero/negative poison at a seeded slice), solve with '
                'a seeded fault (unknown/too many solve_for, malformed tuples/arrays/dtypes, aliased arrays, degenerate layer stacks, degree 0/1 or '
                '45-150, zero/negative frequency, bad bulk density, step / RAM / tolerance budgets, unknown integrator), read the solution, hold its arrays, drop it, re-read. After every '
                'operation: worker alive and answered in time, caller arrays equal their pre-call values within 4 ulp and the sentinel guard zones around them '
                'are intact, success/message/result protocol. distinct = distinct operation list; non-trivial = at least one solve executed.')

    def components(self):
        return {'real': ['TidalPy.RadialSolver.radial_solver and RadialSolverSolution (pre-built compiled extension; cannot be rebuilt: no Cython in the sandbox)',
                         'CyRK integrator, LAPACK, glibc allocator with MALLOC_MMAP_THRESHOLD_=65536 MALLOC_PERTURB_=165'],
                'stub': ['none; faults are injected through the solver\'s own arguments and the caller-owned arrays']}

    def assumptions(self):
        return ['no reply within 25 s is a hang: solver work is bounded by max_num_steps <= 2e5 (normal solves take milliseconds)',
                'input restoration is judged on entries that were finite in the caller\'s original arrays, tolerance 4 ulp',
                'failing allocations and races are not injected (GIL held for the whole call; allocator faults are outside the property\'s list)',
                'compiled code cannot be instrumented or mutated here; sensitivity is shown on behaviours of the shipped binary']


def _label(op):
    if op['op'] == 'planet':
        s = op['spec']
        return 'planet#%d[%s; R=%g r0=%g f=%g%s]' % (op['id'], '/'.join('%s%s%s:%d' % (L['type'][0], 's' if L['static'] else 'd', 'i' if L['incompressible'] else '', L['n']) for L in s['layers']),
                                                    s['radius'], s.get('r0_frac', 0), s['frequency'], (' poison=%s' % [(p['array'], p['value']) for p in op['poison']]) if op.get('poison') else '')
    if op['op'] == 'solve':
        o = op['options']
        keys = ('solve_for', 'degree_l', 'integration_method', 'nondimensionalize', 'raise_on_fail', 'max_num_steps', 'max_ram_MB',
                'integration_rtol', 'integration_atol', 'frequency', 'max_step', 'use_kamata', 'expected_size', 'limit_solution_to_radius',
                'scale_rtols_by_layer_type')
        return 'solve(planet#%d -> sol#%d fault=%s %s%s)' % (op['planet'], op['sol'], op.get('fault'),
                                                            ' '.join('%s=%s' % (k, o[k]) for k in keys if k in o),
                                                            (' mangle=%s' % op['mangle']) if op.get('mangle') else '')
    return '%s(sol#%s)' % (op['op'], op.get('sol'))


def _msg_class(msg):
    import re
    m = re.sub(r'[-+]?[0-9]+(\.[0-9]+)?([eE][-+]?[0-9]+)?', 'N', str(msg))
    return m[:48]


def _exposed_brief(reply):
    ex = reply.get('exposed', {})
    return {k: (None if v is None else 'set') for k, v in ex.items()}
