"""Directed sweep for the thorough tier: every ORDERED PAIR of operation kinds after a complete placement.

History-dependence defects found so far all needed at most two operations after the system was placed (the "three or
fewer operations" regime), so besides the seeded random histories the thorough tier walks the whole grid
(kind A, then kind B) once per configuration family, with seeded values."""
import copy

from simkit.draw import Draw, subseed
from . import engine as E


def op_templates(d, cfg, prop):
    """One concrete operation per (kind, path) the generator knows, for this configuration."""
    ops = []
    n = cfg['N']

    def val(kind):
        return E.gen_value(d, kind, n)
    for sep in E.SEP_KINDS:
        ops.append({'op': 'w.set_state', 'args': {sep: val(sep)}})
        ops.append({'op': 'o.set_state', 'args': {sep: val(sep)}, 'sig': 'instance'})
        ops.append({'op': 'o.setter', 'name': 'set_' + sep, 'sig': 'name', 'args': {'value': val(sep)}})
        ops.append({'op': 'w.prop', 'name': sep, 'kind': sep, 'args': {'value': val(sep)}})
        ops.append({'op': 'w.aug', 'name': sep, 'kind': sep, 'factor': 1.2})
        ops.append({'op': 'w.set_state', 'args': {sep: val(sep)}, 'target': 'host', 'sig': 'instance'})
    ops.append({'op': 'w.set_state', 'args': {'eccentricity': val('eccentricity')}})
    ops.append({'op': 'o.setter', 'name': 'set_eccentricity', 'sig': 'index', 'args': {'value': val('eccentricity')}})
    ops.append({'op': 'w.prop', 'name': 'eccentricity', 'kind': 'eccentricity', 'args': {'value': val('eccentricity')}})
    ops.append({'op': 'o.set_states', 'targets': [0], 'sig': 'instance', 'lists': {'eccentricity': [val('eccentricity')]}})
    ops.append({'op': 'w.set_state', 'args': {'eccentricity': val('eccentricity')}, 'target': 'host', 'sig': 'instance'})
    # the stellar orbit: the world's own orbit around a star host, the host's heliocentric orbit around a planet host
    ops.append({'op': 'stellar', 'how': 'w.prop', 'field': 'distance', 'target': 0, 'sig': 'instance', 'args': {'value': val('semi_major_axis')}})
    ops.append({'op': 'stellar', 'how': 'o.method', 'field': 'eccentricity', 'target': 0, 'sig': 'name', 'args': {'value': val('eccentricity')}})
    if cfg['host'] != 'star':
        ops.append({'op': 'stellar', 'how': 'o.set_state', 'field': 'orbital_period', 'target': 'host', 'sig': 'instance',
                    'args': {'value': val('orbital_period')}})
    if prop == 'C13':
        ops.append({'op': 'w.prop', 'name': 'obliquity', 'kind': 'obliquity', 'args': {'value': val('obliquity')}})
        ops.append({'op': 'w.set_state', 'args': {'obliquity': val('obliquity')}})
        ops.append({'op': 'o.time', 'name': 'time', 'args': {'value': val('time')}})
        if not cfg['sync']:
            ops.append({'op': 'w.prop', 'name': 'spin_period', 'kind': 'spin_period', 'args': {'value': val('spin_period')}})
            ops.append({'op': 'w.method', 'name': 'set_spin_frequency', 'kind': 'spin_frequency', 'args': {'value': val('spin_frequency')}})
            ops.append({'op': 'w.set_state', 'args': {'spin_frequency': val('spin_frequency')}})
        if cfg['model'] in ('cpl', 'ctl'):
            ops.append({'op': 'w.method', 'name': 'set_fixed_q', 'kind': 'fixed_q', 'args': {'value': {'v': 10.0, 'arr': False}}})
            ops.append({'op': 'tides.set_state', 'args': {'fixed_dt': {'v': 600.0, 'arr': False}}})
        if cfg['model'] == 'layered':
            for li in range(cfg['n_layers']):
                ops.append({'op': 'layer.temperature', 'layer': li, 'name': 'prop', 'args': {'value': val('temperature')}})
            ops.append({'op': 'layer.temperature', 'layer': cfg['n_layers'] - 1, 'name': 'set_state', 'args': {'value': val('temperature')}})
        if cfg.get('host_tides'):
            ops.append({'op': 'w.set_state', 'args': {'spin_period': val('spin_period')}, 'target': 'host'})
            ops.append({'op': 'w.prop', 'name': 'obliquity', 'kind': 'obliquity', 'args': {'value': val('obliquity')}, 'target': 'host'})
    return ops


FAMILIES = [
    dict(model='cpl', sync=False, obliq=True, trunc=2, host='giant', host_tides=True, N=0),
    dict(model='ctl', sync=True, obliq=False, trunc=4, host='star', N=3, ctl_method='linear_simple'),
    dict(model='layered', sync=False, obliq=True, trunc=2, host='giant', host_tides=False, N=0, base_world='io_simple', n_layers=2,
         lmax=2, rheology=None),
    dict(model='layered', sync=True, obliq=False, trunc=6, host='star', N=0, base_world='earth_simple', n_layers=4, lmax=3,
         rheology='andrade'),
]


def pair_plans(prop, base_seed):
    plans = []
    E._WIDE[0] = False          # the ordered-pair sweep uses the ordinary palette
    E._INTS[0] = False
    for fi, fam in enumerate(FAMILIES):
        cfg = copy.deepcopy(fam)
        d = Draw(subseed(base_seed, prop, 'pairs', fi))
        n = cfg['N']
        prelude = []
        if cfg['model'] == 'layered' and prop == 'C13':
            for li in range(cfg['n_layers']):
                prelude.append({'op': 'layer.temperature', 'layer': li, 'name': 'prop', 'args': {'value': E.gen_value(d, 'temperature', n)}})
        args = {'orbital_period': E.gen_value(d, 'orbital_period', n), 'eccentricity': E.gen_value(d, 'eccentricity', n)}
        if prop == 'C13':
            args['obliquity'] = E.gen_value(d, 'obliquity', n)
            if not cfg['sync']:
                args['spin_period'] = E.gen_value(d, 'spin_period', n)
        prelude.append({'op': 'w.set_state', 'args': args})
        if cfg.get('host_tides') and prop == 'C13':
            prelude.append({'op': 'w.set_state', 'target': 'host', 'args': {'spin_period': E.gen_value(d, 'spin_period', n),
                                                                         'obliquity': E.gen_value(d, 'obliquity', n)}})
        templates = op_templates(d, cfg, prop)
        for a in templates:
            for b in templates:
                plans.append({'engine': 'oopstate', 'prop': prop, 'seed': None, 'config': copy.deepcopy(cfg),
                              'ops': copy.deepcopy(prelude) + [copy.deepcopy(a), copy.deepcopy(b)]})
    return plans
