"""Build the real TidalPy objects for a configuration, apply operations, observe derived quantities.

Everything here drives /repo's public object-oriented API only; nothing is stubbed.
"""
import copy
import logging

import numpy as np

_TP = {}


def tp():
    """Lazy import of TidalPy pieces (after the environment was isolated)."""
    if not _TP:
        import warnings
        warnings.filterwarnings('ignore')
        import TidalPy
        from TidalPy.structures import build_world, build_from_world
        from TidalPy.structures.orbit import PhysicsOrbit
        from TidalPy.structures.world_builder.config_handler import get_world_configs
        logging.disable(logging.CRITICAL)
        _TP.update(TidalPy=TidalPy, build_world=build_world, build_from_world=build_from_world,
                   PhysicsOrbit=PhysicsOrbit, get_world_configs=get_world_configs)
    return _TP


STAR_CFG = {'name': 'SimStar', 'type': 'star', 'radius': 82927000.0, 'mass': 1.786e+29, 'luminosity': 2.11799e+23,
            'tides_on': False}
GIANT_CFG = {'name': 'SimGiant', 'type': 'gas_giant', 'radius': 69911000.0, 'mass': 1.898e+27,
             'semi_major_axis': 7.78e11, 'eccentricity': 0.048, 'tides_on': False, 'force_spin_sync': False,
             'tides': {'fixed_q': 8000.0}}
SIMPLE_CFG = {'name': 'SimWorld', 'type': 'simple_tidal', 'radius': 5868000.0, 'mass': 2.316e+24}
# a second tidal body that can share the orbit (always a simple CPL world; its own spin-sync flag)
SECOND_CFG = {'name': 'SimCompanion', 'type': 'simple_tidal', 'radius': 1.5608e6, 'mass': 4.8e22,
              'tides': {'model': 'global_approx', 'use_ctl': False, 'max_tidal_order_l': 2, 'eccentricity_truncation_lvl': 2,
                        'obliquity_tides_on': True}, 'tides_on': True}


def world_config(cfg):
    """The configuration dict of the world under test for plan configuration `cfg`."""
    model = cfg['model']
    tides = {'eccentricity_truncation_lvl': cfg['trunc'], 'obliquity_tides_on': cfg['obliq']}
    if model in ('cpl', 'ctl'):
        wc = copy.deepcopy(SIMPLE_CFG)
        tides.update({'model': 'global_approx', 'use_ctl': model == 'ctl', 'max_tidal_order_l': 2})
        if model == 'ctl':
            tides['ctl_calc_method'] = cfg.get('ctl_method', 'linear_simple')
            tides['fixed_dt'] = 10.0
    else:
        base = tp()['get_world_configs']()[cfg['base_world']]
        wc = copy.deepcopy(base)
        wc['name'] = 'SimLayered'
        tides.update({'max_tidal_order_l': cfg.get('lmax', 2)})
        for key in ('orbital_period', 'eccentricity', 'spin_period', 'semi_major_axis', 'semi_major_axis_in_au'):
            wc.pop(key, None)
        if cfg.get('rheology'):
            for lname, ldict in wc['layers'].items():
                if ldict.get('is_tidal'):
                    ldict.setdefault('rheology', {})['complex_compliance'] = {'model': cfg['rheology']}
    co = cfg.get('config_orbit')
    if co == 'period':
        wc['orbital_period'] = 1.769
    elif co == 'axis_m':
        wc['semi_major_axis'] = 4.217e8
        wc['semi_major_axis_in_au'] = False
    elif co == 'axis_au':
        wc['semi_major_axis'] = 0.00282
        wc['semi_major_axis_in_au'] = True
    if co:
        wc['eccentricity'] = 0.0041
        if not cfg['sync']:
            wc['spin_period'] = 2.5
    wc['force_spin_sync'] = cfg['sync']
    wc['tides'] = tides
    wc['tides_on'] = True
    return wc


class System:
    """star (+ optional giant host) + world under test + orbit, built fresh from a plan configuration."""

    def __init__(self, cfg):
        t = tp()
        self.cfg = cfg
        self.star = t['build_world']('SimStar', copy.deepcopy(STAR_CFG))
        self.world = t['build_world'](world_config(cfg)['name'], world_config(cfg))
        self.worlds = [self.world]
        for bi in range(1, cfg.get('n_bodies', 1)):
            c2 = copy.deepcopy(SECOND_CFG)
            c2['name'] = 'SimCompanion' if bi == 1 else 'SimCompanion%d' % bi
            c2['mass'] = SECOND_CFG['mass'] * (1.0 + 0.37 * (bi - 1))
            c2['force_spin_sync'] = bool(cfg.get('sync2', True))
            self.worlds.append(t['build_world'](c2['name'], c2))
        if cfg['host'] == 'star':
            self.host = self.star
            self.orbit = t['PhysicsOrbit'](self.star, tidal_host=self.star, tidal_bodies=list(self.worlds), star_host=True)
        else:
            g = copy.deepcopy(GIANT_CFG)
            g['tides_on'] = bool(cfg.get('host_tides'))
            self.host = t['build_world']('SimGiant', g)
            self.orbit = t['PhysicsOrbit'](self.star, tidal_host=self.host, tidal_bodies=list(self.worlds))
        self.tidal_layers = []
        if hasattr(self.world, 'layers') and cfg['model'] == 'layered':
            self.tidal_layers = [l for l in self.world if getattr(l, 'is_tidal', False)]
            self.all_layers = list(self.world)

    # ---------------------------------------------------------------------------------------------
    def value(self, v, n):
        """Decode a plan value: {'v': float, 'arr': bool} -> float or length-n array."""
        if isinstance(v, dict):
            if 'raw' in v:
                return np.asarray(v['raw'], dtype=np.float64) if isinstance(v['raw'], list) else float(v['raw'])
            if v.get('nudge'):
                base = dict(v)
                nudge = base.pop('nudge')
                out = self.value(base, n)
                return out * (1.0 + nudge)
            if v.get('int'):
                if v.get('arr') and n:
                    return np.asarray([int(v['v']) + k for k in range(n)], dtype=np.int64)
                return int(v['v'])
            if v.get('arr') and n:
                return np.asarray([v['v'] * (1.0 + 0.05 * k) for k in range(n)], dtype=np.float64) \
                    if not v.get('zero_at') else \
                    np.asarray([0.0 if k == v['zero_at'] % n else v['v'] * (1.0 + 0.05 * k) for k in range(n)], dtype=np.float64)
            return float(v['v'])
        return v

    def apply(self, op):
        """Apply one operation through the public API."""
        n = abs(self.cfg.get('N', 0))
        tgt = op.get('target', 0)
        w, o = (self.host if tgt == 'host' else self.worlds[tgt % len(self.worlds)]), self.orbit
        kind = op['op']
        a = {k: self.value(v, n) for k, v in op.get('args', {}).items()}
        if kind == 'o.set_host_tide_raiser':
            o.set_host_tide_raiser(self._signature(self.worlds[op['body'] % len(self.worlds)], op.get('sig')))
            return None
        if kind == 'o.set_states':
            sigs = [self._signature(self.worlds[t % len(self.worlds)], op.get('sig')) for t in op['targets']]
            plural = {'eccentricity': 'eccentricities', 'semi_major_axis': 'semi_major_axes',
                      'orbital_frequency': 'orbital_frequencies', 'orbital_period': 'orbital_periods'}
            kw = {plural[k]: [self.value(v, n) for v in vals] for k, vals in op['lists'].items()}
            o.set_states(sigs, **kw)
        elif kind == 'stellar':
            if self.host is self.star and (tgt == 'host' or op['how'] in ('o.set_state', 'o.setter')):
                return 'skipped'                 # (only a shrunk plan can ask for this) the star has no stellar orbit
            v, sig = a['value'], self._signature(w, op.get('sig'))
            if op['how'] == 'w.prop':
                setattr(w, 'stellar_' + op['field'], v)
            elif op['how'] == 'o.method':
                getattr(o, 'set_stellar_' + op['field'])(sig, v)
            elif getattr(getattr(o, 'host_tide_raiser', None), 'semi_major_axis', None) is None:
                # the general setters with set_stellar_orbit=True report "an orbital change" to the host's tide raiser
                # (needlessly - observed, not claimed); that is only a legal call once the raiser has an orbit
                return 'skipped'
            elif op['how'] == 'o.set_state':
                o.set_state(sig, set_stellar_orbit=True, **{op['field']: v})
            else:
                getattr(o, 'set_' + op['field'])(sig, v, set_stellar_orbit=True)
        elif kind == 'w.set_state':
            w.set_state(**a)
        elif kind == 'o.set_state':
            o.set_state(self._signature(w, op.get('sig')), **a)
        elif kind == 'o.setter':
            getattr(o, op['name'])(self._signature(w, op.get('sig')), a['value'])
        elif kind == 'w.aug':
            # augmented assignment on a world property (`world.n *= 0.5`): the object handed back to the setter is the very
            # array the orbit already stores, modified in place
            cur = getattr(w, op['name'])
            if cur is None:
                return 'skipped'
            if isinstance(cur, np.ndarray) and cur.dtype.kind in 'iu':
                return 'skipped'          # `int_array *= 0.5` is numpy's own casting error in the caller's statement, not an update
            if isinstance(cur, np.ndarray):
                cur *= op['factor']
            else:
                cur = cur * op['factor']
            setattr(w, op['name'], cur)
            return {'raw': cur.tolist() if isinstance(cur, np.ndarray) else float(cur)}
        elif kind == 'w.prop':
            setattr(w, op['name'], a['value'])
        elif kind == 'w.method':
            getattr(w, op['name'])(a['value'])
        elif kind == 'o.time':
            setattr(o, op['name'], a['value'])
        elif kind == 'tides.set_state':
            w.tides.set_state(**a)
        elif kind == 'layer.temperature':
            layer = self.all_layers[op['layer'] % len(self.all_layers)]
            if op['name'] == 'prop':
                layer.temperature = a['value']
            elif op['name'] == 'set_state':
                layer.set_state(temperature=a['value'])
            else:
                layer.set_temperature(a['value'])
        else:
            raise ValueError('unknown op %r' % kind)

    def _signature(self, w, how):
        """The three ways the orbit API accepts to designate a world: instance, name, integer orbit index
        (the tidal host is index 0, the tidal bodies follow in the order they were added)."""
        if how == 'name':
            return w.name
        if how == 'index':
            return 0 if w is self.host else 1 + self.worlds.index(w)
        return w

    # ---------------------------------------------------------------------------------------------
    def observe(self):
        """Every derived quantity the property lists, as a flat {name: value} dict (one block per tidal body)."""
        out = {}
        for wi, w in enumerate(self.worlds):
            self._observe_world(w, '' if wi == 0 else 'w%d.' % wi, out, with_layers=(wi == 0))
        if self.cfg.get('host_tides') and self.host is not self.star:
            h = self.host

            def put(name, fn):
                try:
                    out[name] = fn()
                except Exception as e:
                    out[name] = ('raises', type(e).__name__)
            put('host.tidal_heating_global', lambda: h.tidal_heating_global)
            put('host.dUdM', lambda: h.dUdM)
            put('host.dUdO', lambda: h.dUdO)
            put('host.global_love_by_orderl', lambda: _plain(h.tides.global_love_by_orderl))
            put('host.dUdw', lambda: h.dUdw)
            put('host.unique_tidal_frequencies', lambda: _plain(h.tides.unique_tidal_frequencies))
            put('host.tidal_terms_by_frequency', lambda: _plain(h.tides.tidal_terms_by_frequency))
            put('host.spin_derivative', lambda: h.calc_spin_derivative() if h.dUdO is not None else None)
            put('host.spin_frequency', lambda: h.spin_frequency)
            put('host.obliquity', lambda: h.obliquity)
        return out

    def _observe_world(self, w, pre, out, with_layers):
        o = self.orbit

        def put(name, fn):
            try:
                out[pre + name] = fn()
            except Exception as e:   # an accessor that raises is an observation too
                out[pre + name] = ('raises', type(e).__name__)

        td = w.tides
        put('unique_tidal_frequencies', lambda: _plain(td.unique_tidal_frequencies))
        put('tidal_terms_by_frequency', lambda: _plain(td.tidal_terms_by_frequency))
        put('global_love_by_orderl', lambda: _plain(td.global_love_by_orderl))
        put('global_negative_imk_by_orderl', lambda: _plain(td.global_negative_imk_by_orderl))
        put('effective_q_by_orderl', lambda: _plain(td.effective_q_by_orderl))
        put('tidal_heating_global', lambda: w.tidal_heating_global)
        put('dUdM', lambda: w.dUdM)
        put('dUdw', lambda: w.dUdw)
        put('dUdO', lambda: w.dUdO)
        put('tidal_susceptibility', lambda: td.tidal_susceptibility)
        put('de_dt', lambda: o.get_eccentricity_time_derivative(w))
        put('da_dt', lambda: o.get_semi_major_axis_time_derivative(w))
        put('dn_dt', lambda: o.get_orbital_motion_time_derivative(w))
        put('spin_derivative', lambda: w.calc_spin_derivative() if w.dUdO is not None else None)
        put('spin_frequency', lambda: w.spin_frequency)
        put('orbital_frequency', lambda: w.orbital_frequency)
        put('semi_major_axis', lambda: w.semi_major_axis)
        put('orbital_period', lambda: w.orbital_period)
        put('eccentricity', lambda: w.eccentricity)
        put('obliquity', lambda: w.obliquity)
        put('time', lambda: w.time)
        if not hasattr(w, 'layers') or self.cfg['model'] in ('cpl', 'ctl') or not with_layers:
            put('fixed_q', lambda: w.fixed_q)
            put('fixed_dt', lambda: w.fixed_dt)
        if with_layers:
            for i, layer in enumerate(getattr(self, 'all_layers', [])):
                p = 'layer%d.' % i
                put(p + 'temperature', lambda l=layer: l.temperature)
                put(p + 'viscosity', lambda l=layer: l.viscosity)
                put(p + 'shear_modulus', lambda l=layer: l.shear_modulus)
                put(p + 'tidal_heating', lambda l=layer: l.tidal_heating)
                put(p + 'complex_compliances', lambda l=layer: _plain(l.complex_compliances))
                put(p + 'radiogenic_heating', lambda l=layer: l.radiogenic_heating)


def _plain(x):
    """numba typed dicts / nested tuples -> plain python containers of arrays."""
    if x is None:
        return None
    if hasattr(x, 'items'):
        return {repr(k): _plain(v) for k, v in x.items()}
    if isinstance(x, (tuple, list)):
        return [_plain(v) for v in x]
    return x


def compare(a, b, rtol=1e-12, path=''):
    """List of (path, description) where observation trees a and b differ. NaNs compare equal."""
    diffs = []
    if a is None or b is None:
        if not (a is None and b is None):
            diffs.append((path, 'None-ness: %s vs %s' % (_brief(a), _brief(b))))
        return diffs
    if isinstance(a, dict) or isinstance(b, dict):
        if not (isinstance(a, dict) and isinstance(b, dict)):
            diffs.append((path, 'container kinds differ'))
            return diffs
        if set(a) != set(b):
            diffs.append((path, 'keys differ: only-history=%s only-twin=%s' % (sorted(set(a) - set(b))[:4], sorted(set(b) - set(a))[:4])))
        for k in sorted(set(a) & set(b)):
            diffs += compare(a[k], b[k], rtol, path + '/' + str(k))
        return diffs
    if isinstance(a, tuple) and len(a) == 2 and a[0] == 'raises' or isinstance(b, tuple) and len(b) == 2 and b[0] == 'raises':
        if a != b:
            diffs.append((path, 'accessor outcome differs: %s vs %s' % (a, b)))
        return diffs
    if isinstance(a, list) or isinstance(b, list):
        if not (isinstance(a, list) and isinstance(b, list)) or len(a) != len(b):
            diffs.append((path, 'sequence shapes differ'))
            return diffs
        for i, (x, y) in enumerate(zip(a, b)):
            diffs += compare(x, y, rtol, path + '[%d]' % i)
        return diffs
    try:
        xa, xb = np.asarray(a), np.asarray(b)
        xa, xb = np.broadcast_arrays(xa, xb)
    except Exception:
        diffs.append((path, 'cannot broadcast %s vs %s' % (_brief(a), _brief(b))))
        return diffs
    if xa.dtype == object or xb.dtype == object:
        if repr(a) != repr(b):
            diffs.append((path, 'objects differ'))
        return diffs
    with np.errstate(all='ignore'):
        both_nan = np.isnan(xa) & np.isnan(xb)
        same_inf = np.isinf(xa) & np.isinf(xb) & (xa == xb) if not np.iscomplexobj(xa) and not np.iscomplexobj(xb) else (xa == xb)
        tol = rtol * np.maximum(np.abs(xa), np.abs(xb))
        close = np.abs(xa - xb) <= tol
        ok = close | both_nan | same_inf
    if not np.all(ok):
        with np.errstate(all='ignore'):
            rel = np.abs(xa - xb) / np.maximum(np.abs(xa), np.abs(xb))
            worst = np.nanmax(np.where(ok, 0.0, rel)) if np.any(np.isfinite(rel)) else float('nan')
        diffs.append((path, 'values differ: history=%s twin=%s (max rel. dev. %.3g)' % (_brief(a), _brief(b), worst)))
    return diffs


def _brief(x):
    if x is None:
        return 'None'
    try:
        arr = np.asarray(x)
        if arr.ndim == 0:
            return repr(arr.item())
        return np.array2string(arr.ravel()[:3], precision=6) + ('...' if arr.size > 3 else '')
    except Exception:
        return type(x).__name__
