"""C13 / C17 engine: seeded setter histories on the real world/orbit/tides objects, judged against a freshly
built twin placed directly in the reference model's state (C13) and against Kepler's third law (C17)."""
import copy
import math

import numpy as np

from simkit.engine import EngineBase
from simkit.draw import Draw, digest as jdigest
from simkit.shrink import without_chunks
from . import system

G = 6.67430e-11

PAL = {
    'orbital_period': [1.5, 1.769, 3.0, 6.1, 12.3],
    'orbital_frequency': [2 * math.pi / (86400. * p) for p in (1.4, 1.769, 2.9, 6.5, 11.0)],
    'semi_major_axis': [3.0e8, 4.217e8, 8.0e8, 4.376e9],
    'eccentricity': [0.0041, 0.01, 0.05, 0.1, 0.3, 0.0, 0.6],
    'obliquity': [0.0, 0.01, 0.1, 0.4, 1.0],
    'spin_period': [1.0, 1.769, 2.5, 10.0],
    'spin_frequency': [2 * math.pi / (86400. * p) for p in (0.9, 1.769, 2.2, 8.0, -3.0, 1.4)],   # incl. retrograde and = an orbital palette value
    'time': [0.0, 100.0, 1000.0, 4600.0],
    'fixed_q': [10.0, 100.0, 1000.0, 5000.0],
    'fixed_dt': [0.001, 1.0, 600.0],
    'temperature': [1000.0, 1400.0, 1600.0, 1800.0],
}
SEP_KINDS = ['orbital_period', 'orbital_frequency', 'semi_major_axis']
SPIN_KINDS = ['spin_period', 'spin_frequency']


_WIDE = [False]     # per-plan swarm knob (C17): separations over thirty orders of magnitude
_INTS = [False]     # per-plan swarm knob (C17): some separations are integers


def gen_value(d: Draw, kind, n, mixed=None):
    # n > 0: array run.  n < 0 encodes "mixed" runs (scalars and arrays of length -n in one history), which cost a numba
    # compilation per new signature, so they are the minority.
    if n < 0:
        v = {'v': d.pick(PAL[kind]), 'arr': d.chance(1, 2)}
    else:
        v = {'v': d.pick(PAL[kind]), 'arr': bool(n)}
    n = abs(n)
    if _WIDE[0] and kind in SEP_KINDS and d.chance(1, 3):
        # "all positive finite inputs over 30 orders of magnitude": a period of microseconds, a separation far inside the
        # host or of light-years - Kepler's law is a pure identity between the three stored numbers and must survive them
        v['v'] = v['v'] * 10.0 ** d.pick([-15, -12, -9, -6, -4, -3, -2, -1, 1, 2, 3, 4, 6, 9, 12, 15])
    if _INTS[0] and kind in ('semi_major_axis', 'orbital_period') and 'nudge' not in v and 1.0 <= v['v'] < 2.0 ** 53 and d.chance(1, 4):
        # a whole number handed in as a Python int / an int64 array (421700000 m, 3 days): a positive finite input like any other
        v['v'] = int(round(v['v']))
        v['int'] = True
        return v
    if d.chance(1, 6):
        # a value a hair away from a palette value: successive updates that differ by far less than any "looks unchanged"
        # tolerance, as a time-stepping caller produces them
        v['nudge'] = d.pick([1e-9, 3e-7, 2e-6])
    if v['arr'] and kind in ('eccentricity', 'obliquity') and d.chance(1, 10):
        v['zero_at'] = d.below(n) + n   # an array containing an exact zero (yields inf/NaN rates, must not raise)
    return v


def gen_config(d: Draw, prop):
    model = d.weighted([('cpl', 3), ('ctl', 3), ('layered', 4)])
    cfg = {'model': model, 'sync': d.chance(1, 2), 'obliq': d.chance(1, 2), 'trunc': d.pick([2, 4, 6]),
           'host': d.weighted([('star', 2), ('giant', 2)]), 'N': d.weighted([(0, 8), (3, 4), (5, 2), (-3, 4), (1, 1)])}
    if model == 'ctl':
        cfg['ctl_method'] = d.pick(['linear_simple', 'linear_simple_with_q'])
    if model == 'layered':
        cfg['base_world'] = d.pick(['io_simple', 'earth_simple'])
        cfg['n_layers'] = {'io_simple': 2, 'earth_simple': 4}[cfg['base_world']]
        cfg['lmax'] = d.pick([2, 2, 3])
        cfg['rheology'] = d.pick([None, 'maxwell', 'andrade'])
    if cfg['host'] == 'giant':
        cfg['host_tides'] = d.chance(1, 3)
    if d.chance(1, 4):
        # the world's configuration itself carries an orbit (loaded when the world joins the orbit)
        cfg['config_orbit'] = d.pick(['period', 'axis_m', 'axis_au'])
    if d.chance(1, 4) or (prop == 'C17' and d.chance(1, 3)):
        # a second tidal body shares the orbit (updates of the two bodies interleave)
        cfg['n_bodies'] = 2 if (prop != 'C17' or d.chance(2, 3)) else 3
        cfg['sync2'] = d.chance(1, 2)
    return cfg


def gen_host_op(d: Draw, cfg):
    """A state change of the tidally active host itself (its spin and obliquity; its orbit is the satellite's)."""
    n = cfg['N']
    fields = [f for f in ('spin', 'obliquity') if d.chance(1, 2)] or [d.pick(['spin', 'obliquity'])]
    if d.chance(1, 2):
        args = {}
        for f in fields:
            if f == 'spin':
                kind = d.pick(SPIN_KINDS)
                args[kind] = gen_value(d, kind, n)
            else:
                args['obliquity'] = gen_value(d, 'obliquity', n)
        return {'op': 'w.set_state', 'args': args, 'target': 'host'}
    f = fields[0]
    if f == 'spin':
        name, kind, how = d.pick([('spin_frequency', 'spin_frequency', 'w.prop'), ('spin_period', 'spin_period', 'w.prop'),
                                  ('set_spin_frequency', 'spin_frequency', 'w.method'), ('set_spin_period', 'spin_period', 'w.method')])
    else:
        name, kind, how = d.pick([('obliquity', 'obliquity', 'w.prop'), ('set_obliquity', 'obliquity', 'w.method')])
    return {'op': how, 'name': name, 'kind': kind, 'args': {'value': gen_value(d, kind, n)}, 'target': 'host'}


def gen_host_orbit_op(d: Draw, cfg):
    """An orbital update addressed to the tidal HOST: by design its signature points at the orbit of its tide raiser
    (the first tidal body), so this is one more path by which that body's (a, n, P, e) are changed."""
    n = cfg['N']
    how = d.weighted([('w.set_state', 3), ('o.set_state', 3), ('o.setter', 2), ('w.prop', 2)])
    if how in ('w.set_state', 'o.set_state'):
        args = {}
        for f in ([f for f in ('sep', 'eccentricity') if d.chance(1, 2)] or [d.pick(['sep', 'eccentricity'])]):
            if f == 'sep':
                kind = d.pick(SEP_KINDS)
                args[kind] = gen_value(d, kind, n)
            else:
                args[f] = gen_value(d, f, n)
        return {'op': how, 'args': args, 'target': 'host', 'sig': d.weighted([('instance', 3), ('name', 1), ('index', 1)])}
    if how == 'o.setter':
        kind = d.pick(SEP_KINDS + ['eccentricity'])
        return {'op': 'o.setter', 'name': 'set_' + kind, 'sig': d.pick(['instance', 'name', 'index']), 'target': 'host',
                'args': {'value': gen_value(d, kind, n)}}
    name, kind = d.pick([('eccentricity', 'eccentricity'), ('semi_major_axis', 'semi_major_axis'),
                         ('orbital_frequency', 'orbital_frequency'), ('orbital_period', 'orbital_period')])
    return {'op': 'w.prop', 'name': name, 'kind': kind, 'target': 'host', 'args': {'value': gen_value(d, kind, n)}}


def gen_stellar_op(d: Draw, cfg):
    """An update of the STELLAR orbit (distance / eccentricity with respect to the star, used for insolation).

    Around a star host this is the world's own orbit under another name.  Around a planet host the documented meaning is
    "the world shares its stellar distance with its tidal host": the update belongs to the host's heliocentric orbit
    (slot 0 of the orbit object) and must leave every satellite's orbit about the host alone."""
    n = cfg['N']
    star_host = cfg['host'] == 'star'
    nb = cfg.get('n_bodies', 1)
    how = d.weighted([('w.prop', 4), ('o.method', 3)] + ([] if star_host else [('o.set_state', 2), ('o.setter', 2)]))
    if how in ('w.prop', 'o.method'):
        field = d.pick(['distance', 'distance', 'eccentricity'])
        kind = 'semi_major_axis' if field == 'distance' else 'eccentricity'
        target = d.below(nb) if (star_host or d.chance(2, 3)) else 'host'
        return {'op': 'stellar', 'how': how, 'field': field, 'target': target, 'sig': d.pick(['instance', 'name', 'index']),
                'args': {'value': gen_value(d, kind, n)}}
    # the general setters with set_stellar_orbit=True, designated by the tidal host (the documented use of the flag)
    field = d.pick(SEP_KINDS + ['eccentricity'])
    return {'op': 'stellar', 'how': how, 'field': field, 'target': 'host', 'sig': d.pick(['instance', 'name', 'index']),
            'args': {'value': gen_value(d, field, n)}}


def gen_set_states(d: Draw, cfg):
    """orbit.set_states([...]): one batched orbit-level call for several bodies."""
    n = cfg['N']
    nb = cfg.get('n_bodies', 1)
    targets = d.shuffled(list(range(nb)))[:d.between(1, nb)]
    op = {'op': 'o.set_states', 'targets': targets, 'sig': d.pick(['instance', 'name', 'index']), 'lists': {}}
    kinds = [k for k in ('sep', 'eccentricity') if d.chance(1, 2)] or [d.pick(['sep', 'eccentricity'])]
    for k in kinds:
        if k == 'sep':
            kind = d.pick(SEP_KINDS)
            op['lists'][kind] = [gen_value(d, kind, n) for _ in targets]
        else:
            op['lists']['eccentricity'] = [gen_value(d, 'eccentricity', n) for _ in targets]
    return op


def gen_op(d: Draw, cfg, prop):
    if prop == 'C17' and cfg.get('n_bodies', 1) >= 2 and d.chance(1, 8):
        # which body's orbit the host's signature addresses (C17 only: for C13 the reference model of the host's own tides
        # would have to follow the switch, which the property does not speak about)
        return {'op': 'o.set_host_tide_raiser', 'body': d.below(cfg['n_bodies']), 'sig': d.pick(['instance', 'name', 'index'])}
    if cfg.get('host_tides') and prop == 'C13' and d.chance(1, 5):
        return gen_host_op(d, cfg)
    if d.chance(1, 12):
        return gen_stellar_op(d, cfg)
    if d.chance(1, 8 if cfg.get('n_bodies', 1) < 2 else 5):
        return gen_host_orbit_op(d, cfg)
    if d.chance(1, 10 if cfg.get('n_bodies', 1) < 2 else 5):
        return gen_set_states(d, cfg)
    if cfg.get('n_bodies', 1) >= 2 and d.chance(1, 3):
        # an update of a companion body: a simple CPL world with its own spin-sync flag
        cfg2 = dict(cfg, model='cpl', sync=cfg.get('sync2', True))
        op = _gen_op(d, cfg2, prop)
        if op['op'] != 'o.time':
            op['target'] = d.between(1, cfg['n_bodies'] - 1)
        return op
    return _gen_op(d, cfg, prop)


def _gen_op(d: Draw, cfg, prop):
    n = cfg['N']
    model = cfg['model']
    kinds = [('w.set_state', 5), ('o.set_state', 3), ('o.setter', 4), ('w.prop.orbit', 4), ('w.aug', 1)]
    if prop == 'C13':
        kinds += [('w.obliquity', 2), ('o.time', 1)]
        if not cfg['sync']:
            kinds += [('w.spin', 3)]
        if model in ('cpl', 'ctl'):
            kinds += [('fixed', 3)]
        if model == 'layered':
            kinds += [('layer.temperature', 4)]
    k = d.weighted(kinds)
    if k == 'w.set_state':
        args = {}
        fields = ['sep', 'eccentricity']
        if prop == 'C13':
            fields += ['obliquity'] + ([] if cfg['sync'] else ['spin'])
        chosen = [f for f in fields if d.chance(1, 2)] or [d.pick(fields)]
        for f in chosen:
            if f == 'sep':
                kind = d.pick(SEP_KINDS)
                args[kind] = gen_value(d, kind, n)
            elif f == 'spin':
                kind = d.pick(SPIN_KINDS)
                args[kind] = gen_value(d, kind, n)
            else:
                args[f] = gen_value(d, f, n)
        return {'op': 'w.set_state', 'args': args}
    if k == 'o.set_state':
        args = {}
        chosen = [f for f in ('sep', 'eccentricity') if d.chance(1, 2)] or [d.pick(['sep', 'eccentricity'])]
        for f in chosen:
            if f == 'sep':
                kind = d.pick(SEP_KINDS)
                args[kind] = gen_value(d, kind, n)
            else:
                args[f] = gen_value(d, f, n)
        return {'op': 'o.set_state', 'args': args, 'sig': d.weighted([('instance', 3), ('name', 1), ('index', 1)])}
    if k == 'o.setter':
        kind = d.pick(SEP_KINDS + ['eccentricity'])
        return {'op': 'o.setter', 'name': 'set_' + kind, 'sig': d.pick(['instance', 'name', 'index']),
                'args': {'value': gen_value(d, kind, n)}}
    if k == 'w.aug':
        name, kind = d.pick([('semi_major_axis', 'semi_major_axis'), ('orbital_frequency', 'orbital_frequency'),
                             ('orbital_period', 'orbital_period'), ('orbital_freq', 'orbital_frequency'), ('n', 'orbital_frequency'),
                             ('orbital_motion', 'orbital_frequency')])
        return {'op': 'w.aug', 'name': name, 'kind': kind, 'factor': d.pick([0.5, 2.0, 1.2, 0.9])}
    if k == 'w.prop.orbit':
        name, kind = d.pick([('eccentricity', 'eccentricity'), ('semi_major_axis', 'semi_major_axis'),
                             ('orbital_frequency', 'orbital_frequency'), ('orbital_period', 'orbital_period'),
                             ('orbital_freq', 'orbital_frequency'), ('n', 'orbital_frequency'),
                             ('orbital_motion', 'orbital_frequency')])
        return {'op': 'w.prop', 'name': name, 'kind': kind, 'args': {'value': gen_value(d, kind, n)}}
    if k == 'w.obliquity':
        if d.chance(1, 2):
            return {'op': 'w.prop', 'name': 'obliquity', 'kind': 'obliquity', 'args': {'value': gen_value(d, 'obliquity', n)}}
        return {'op': 'w.method', 'name': 'set_obliquity', 'kind': 'obliquity', 'args': {'value': gen_value(d, 'obliquity', n)}}
    if k == 'w.spin':
        name, kind, how = d.pick([('spin_frequency', 'spin_frequency', 'w.prop'), ('spin_period', 'spin_period', 'w.prop'),
                                  ('spin_freq', 'spin_frequency', 'w.prop'),
                                  ('set_spin_frequency', 'spin_frequency', 'w.method'),
                                  ('set_spin_period', 'spin_period', 'w.method')])
        return {'op': how, 'name': name, 'kind': kind, 'args': {'value': gen_value(d, kind, n)}}
    if k == 'o.time':
        return {'op': 'o.time', 'name': d.pick(['time', 'universal_time']), 'args': {'value': gen_value(d, 'time', n)}}
    if k == 'fixed':
        which = d.pick(['q', 'dt', 'both'] if model == 'ctl' else ['q', 'q', 'both'])
        how = d.pick(['method', 'prop', 'tides.set_state'])
        q = {'v': d.pick(PAL['fixed_q']), 'arr': False}
        dt = {'v': d.pick(PAL['fixed_dt']), 'arr': False}
        if how == 'tides.set_state' or which == 'both':
            args = {}
            if which in ('q', 'both'):
                args['fixed_q'] = q
            if which in ('dt', 'both'):
                args['fixed_dt'] = dt
            return {'op': 'tides.set_state', 'args': args}
        if which == 'q':
            return {'op': 'w.method' if how == 'method' else 'w.prop', 'name': 'set_fixed_q' if how == 'method' else 'fixed_q',
                    'kind': 'fixed_q', 'args': {'value': q}}
        return {'op': 'w.method' if how == 'method' else 'w.prop',
                'name': 'set_fixed_dt' if how == 'method' else d.pick(['fixed_dt', 'fixed_time_lag']),
                'kind': 'fixed_dt', 'args': {'value': dt}}
    if k == 'layer.temperature':
        return {'op': 'layer.temperature', 'layer': d.below(cfg.get('n_layers', 2)), 'name': d.pick(['prop', 'set_state', 'set_temperature']),
                'args': {'value': gen_value(d, 'temperature', n)}}
    raise AssertionError(k)


def model_apply(state, op, n_layers=None):
    """The reference model: last applied value of every independent variable (and how the separation / spin were given)."""
    kind = op['op']
    a = op.get('args', {})
    if kind == 'o.set_host_tide_raiser':
        state['_raiser'] = op['body']
        return
    if kind == 'o.set_states':
        plural = {'eccentricity': 'eccentricity', 'semi_major_axis': 'semi_major_axis', 'orbital_frequency': 'orbital_frequency',
                  'orbital_period': 'orbital_period'}
        for pos, tgt in enumerate(op['targets']):
            st = state.setdefault('body%d' % tgt, {})
            for key, vals in op['lists'].items():
                if key in SEP_KINDS:
                    st['sep'] = (key, vals[pos])
                else:
                    st[key] = vals[pos]
        return
    if kind == 'stellar':
        key = 'semi_major_axis' if op['field'] == 'distance' else op['field']
        if state.get('_star_host'):
            st = state.setdefault('body%d' % op['target'], {})       # the stellar orbit IS the world's orbit
        else:
            st = state.setdefault('stellar', {})                     # the host's heliocentric orbit; no satellite moves
        if key in SEP_KINDS:
            st['sep'] = (key, a['value'])
        else:
            st[key] = a['value']
        return
    if kind != 'o.time':
        tgt = op.get('target', 0)
        if tgt == 'host' and _is_orbital(op):
            tgt = state.get('_raiser', 0)   # the host's signature addresses the orbit of its tide raiser (first body by default)
        state = state.setdefault('host' if tgt == 'host' else 'body%d' % tgt, {})
    if kind in ('w.set_state', 'o.set_state'):
        for key, v in a.items():
            if key in SEP_KINDS:
                state['sep'] = (key, v)
            elif key in SPIN_KINDS:
                state['spin'] = (key, v)
            else:
                state[key] = v
    elif kind == 'o.setter':
        key = op['name'][4:]
        if key in SEP_KINDS:
            state['sep'] = (key, a['value'])
        else:
            state[key] = a['value']
    elif kind in ('w.prop', 'w.method'):
        key = op['kind']
        if key in SEP_KINDS:
            state['sep'] = (key, a['value'])
        elif key in SPIN_KINDS:
            state['spin'] = (key, a['value'])
        else:
            state[key] = a['value']
    elif kind == 'o.time':
        state['time'] = a['value']
    elif kind == 'tides.set_state':
        for key, v in a.items():
            state[key] = v
    elif kind == 'layer.temperature':
        li = op['layer'] % n_layers if n_layers else op['layer']
        state.setdefault('T', {})[li] = a['value']


def _is_orbital(op):
    keys = list(op.get('args', {}).keys())
    if op['op'] in ('w.set_state', 'o.set_state'):
        return any(k in SEP_KINDS or k == 'eccentricity' for k in keys)
    if op['op'] == 'o.setter':
        return True
    return op.get('kind') in SEP_KINDS + ['eccentricity']


def place_twin(twin, state):
    """Put a freshly built system directly into the model's state: one canonical batched call per object."""
    n = abs(twin.cfg.get('N', 0))
    if 'time' in state:
        twin.orbit.time = twin.value(state['time'], n)
    for wi, world in enumerate(twin.worlds):
        st = state.get('body%d' % wi, {})
        for li, v in sorted(st.get('T', {}).items()):
            layer = twin.all_layers[li % len(twin.all_layers)]
            layer.temperature = twin.value(v, n)
        kw = {}
        if 'fixed_q' in st:
            kw['fixed_q'] = twin.value(st['fixed_q'], n)
        if 'fixed_dt' in st:
            kw['fixed_dt'] = twin.value(st['fixed_dt'], n)
        if kw:
            world.tides.set_state(**kw)
        kw = {}
        if 'sep' in st:
            kw[st['sep'][0]] = twin.value(st['sep'][1], n)
        if 'spin' in st:
            kw[st['spin'][0]] = twin.value(st['spin'][1], n)
        for key in ('eccentricity', 'obliquity'):
            if key in st:
                kw[key] = twin.value(st[key], n)
        if kw:
            world.set_state(**kw)
    st = state.get('host', {})
    kw = {}
    if 'spin' in st:
        kw[st['spin'][0]] = twin.value(st['spin'][1], n)
    if 'obliquity' in st:
        kw['obliquity'] = twin.value(st['obliquity'], n)
    if kw:
        twin.host.set_state(**kw)


class OopStateEngine(EngineBase):
    name = 'oopstate'
    fault_note = 'the property has no fault clause: no fault is injected; the explored dimension is the history of legal state changes (counts under ops)'
    source_files = ['TidalPy/tides/methods/base.py', 'TidalPy/tides/methods/global_approx.py', 'TidalPy/tides/methods/layered.py',
                    'TidalPy/structures/world_types/basic.py', 'TidalPy/structures/world_types/tidal.py',
                    'TidalPy/structures/world_types/layered.py', 'TidalPy/structures/orbit/base.py',
                    'TidalPy/structures/orbit/physics.py', 'TidalPy/structures/layers/physics.py', 'TidalPy/rheology/rheology.py',
                    'TidalPy/utilities/conversions/conversions.py']

    def prepare(self, tier):
        system.tp()
        self._install_flag_probe()
        # warm the numba kernels once before forking (on-disk cache in the scratch dir serves the rest)
        combos = []
        for trunc in (2, 4, 6):
            for obliq in (False, True):
                for n in (0, 3):
                    combos.append(dict(model='cpl', sync=False, obliq=obliq, trunc=trunc, host='giant', host_tides=False, N=n))
        combos.append(dict(model='cpl', sync=False, obliq=True, trunc=2, host='giant', host_tides=True, N=3))
        combos.append(dict(model='ctl', sync=False, obliq=True, trunc=2, host='star', N=0, ctl_method='linear_simple'))
        combos.append(dict(model='ctl', sync=False, obliq=False, trunc=2, host='star', N=3, ctl_method='linear_simple_with_q'))
        combos.append(dict(model='layered', sync=False, obliq=True, trunc=2, host='star', N=0, base_world='io_simple', lmax=2, rheology=None))
        combos.append(dict(model='layered', sync=False, obliq=False, trunc=2, host='star', N=3, base_world='io_simple', lmax=3, rheology='andrade'))
        for cfg in combos:
            try:
                n = abs(cfg['N'])
                s = system.System(cfg)
                if cfg['model'] == 'layered':
                    for l in s.all_layers:
                        l.temperature = 1500.0
                val = (lambda x: np.asarray([x, x * 1.1, x * 1.2])) if n else (lambda x: x)
                s.world.set_state(orbital_period=val(2.0), eccentricity=val(0.05), spin_period=val(1.5), obliquity=val(0.1))
                s.observe()
            except Exception:
                pass

    _flag_paths = set()

    def _install_flag_probe(self):
        """Count which change-flag combinations reach the tides cascade (a reach measure, never an oracle)."""
        from TidalPy.tides.methods.base import TidesBase
        import inspect
        original = getattr(TidesBase, 'orbit_spin_changed', None)
        if original is None or getattr(original, '_verif_probe', False):
            return
        paths = OopStateEngine._flag_paths
        try:
            sig = inspect.signature(original)
        except (TypeError, ValueError):
            return

        def probe(self_, *a, **k):
            # signature-agnostic: whatever the flags are called in this version of the code, record their truth values in
            # declaration order; the call itself is forwarded untouched
            try:
                bound = sig.bind(self_, *a, **k)
                bound.apply_defaults()
                flags = [v for n, v in list(bound.arguments.items())[1:] if isinstance(v, (bool, int))][:6]
                paths.add('%s:%s' % (type(self_).__name__, ''.join('1' if f else '0' for f in flags)))
            except Exception:
                pass
            return original(self_, *a, **k)
        probe._verif_probe = True
        probe.__wrapped__ = original
        probe.__name__ = getattr(original, '__name__', 'orbit_spin_changed')
        probe.__doc__ = original.__doc__
        TidesBase.orbit_spin_changed = probe

    def pre_checks(self, tier, base_seed, workers):
        out = {'harness_errors': [], 'results': [], 'summary': {}}
        if tier == 'quick':
            return out
        from . import pairs
        from simkit.runner import run_jobs
        plans = pairs.pair_plans(self.prop, base_seed)
        res = run_jobs(self, [('plan', p) for p in plans], workers=workers, job_cap_s=600.0)
        n_ok = 0
        for idx, status, item in res:
            if status == 'ok':
                n_ok += 1
                item['seed'] = None
                out['results'].append(item)
            else:
                out['harness_errors'].append('pair sweep plan %d: %s: %s' % (idx, status, str(item)[-600:]))
        out['summary']['ordered_pair_sweep'] = {'families': len(pairs.FAMILIES), 'plans_run': n_ok,
                                                'note': 'after a complete placement, every ordered pair (operation kind A, then B) of the '
                                                        'generator\'s operation kinds, once per configuration family, seeded values'}
        return out

    def tier_config(self, tier):
        if self.prop == 'C17':
            if tier == 'quick':
                return {'runs': 1500, 'budget_s': 60.0, 'job_cap_s': 300.0, 'determinism_seeds': 6, 'shrink_budget': 120}
            return {'runs': 60000, 'budget_s': 900.0, 'job_cap_s': 300.0, 'determinism_seeds': 20, 'shrink_budget': 300}
        if tier == 'quick':
            return {'runs': 700, 'budget_s': 90.0, 'job_cap_s': 300.0, 'determinism_seeds': 6, 'shrink_budget': 120}
        return {'runs': 40000, 'budget_s': 1500.0, 'job_cap_s': 300.0, 'determinism_seeds': 20, 'shrink_budget': 300}

    def gen_plan(self, seed, tier):
        d = Draw(seed)
        cfg = gen_config(d, self.prop)
        n_ops = d.between(3, 10) if tier == 'quick' else d.between(3, 14)
        _WIDE[0] = self.prop == 'C17' and d.chance(1, 3)
        _INTS[0] = self.prop == 'C17' and d.chance(1, 4)
        ops = []
        if d.chance(3, 4):
            # most histories start by placing the system in a complete state, so that tides are actually computed
            n = cfg['N']
            if cfg['model'] == 'layered' and self.prop == 'C13':
                for li in range(cfg['n_layers']):
                    ops.append({'op': 'layer.temperature', 'layer': li, 'name': 'prop', 'args': {'value': gen_value(d, 'temperature', n)}})
            sep = d.pick(SEP_KINDS)
            args = {sep: gen_value(d, sep, n), 'eccentricity': gen_value(d, 'eccentricity', n)}
            if self.prop == 'C13':
                if not cfg['sync']:
                    sk = d.pick(SPIN_KINDS)
                    args[sk] = gen_value(d, sk, n)
                if d.chance(1, 2):
                    args['obliquity'] = gen_value(d, 'obliquity', n)
            ops.append({'op': 'w.set_state', 'args': args})
            if cfg.get('host_tides') and self.prop == 'C13':
                sk = d.pick(SPIN_KINDS)
                ops.append({'op': 'w.set_state', 'target': 'host',
                            'args': {sk: gen_value(d, sk, n), 'obliquity': gen_value(d, 'obliquity', n)}})
            ops = d.shuffled(ops)
        ops += [gen_op(d, cfg, self.prop) for _ in range(n_ops)]
        return {'engine': 'oopstate', 'prop': self.prop, 'seed': seed, 'config': cfg, 'ops': ops}

    def shrink_candidates(self, plan):
        for ops in without_chunks(plan['ops'], 1):
            new = copy.deepcopy(plan)
            new['ops'] = ops
            yield new
        cfg = plan['config']
        for key, plain in (('host', 'star'), ('host_tides', False), ('obliq', False), ('trunc', 2), ('sync', False),
                           ('lmax', 2), ('rheology', None), ('n_bodies', 1), ('config_orbit', None)):
            if key in cfg and cfg[key] != plain:
                if key == 'sync' and any(_has_spin(o) for o in plan['ops']):
                    continue
                if key in ('host', 'host_tides') and any(o.get('target') == 'host' for o in plan['ops']):
                    continue
                if key == 'n_bodies' and any(o.get('target') in (1, 2) or o.get('body') or any(t_ >= 1 for t_ in o.get('targets', [])) for o in plan['ops']):
                    continue
                new = copy.deepcopy(plan)
                new['config'][key] = plain
                yield new
        for i, op in enumerate(plan['ops']):
            if op['op'] in ('w.set_state', 'o.set_state') and len(op['args']) > 1:
                for key in list(op['args']):
                    new = copy.deepcopy(plan)
                    del new['ops'][i]['args'][key]
                    yield new
            for key, v in op.get('args', {}).items():
                if isinstance(v, dict) and v.get('arr'):
                    new = copy.deepcopy(plan)
                    new['ops'][i]['args'][key] = {'v': v['v'], 'arr': False}
                    yield new

    def plan_size(self, plan):
        return len(plan['ops']) * 100 + sum(len(o.get('args', {})) for o in plan['ops']) * 10 + (10 if plan['config'].get('N') else 0)

    # ------------------------------------------------------------------------------------------
    def run_plan(self, plan):
        cfg = plan['config']
        prop = plan.get('prop', self.prop)
        counters = {}
        sets = {'abstract_states': [], 'flag_paths': []}
        violations = []
        trace = []
        harness_errors = []
        OopStateEngine._flag_paths.clear()

        def bump(k, n=1):
            counters[k] = counters.get(k, 0) + n

        blocking = []

        def viol(clause, cls, message, **sig):
            s = {'clause': clause, 'class': cls}
            s.update(sig)
            v = {'property': prop, 'clause': clause, 'class': cls, 'signature': s, 'message': message}
            if self.is_known(v):
                # a listed known finding is reported (once per class and run) but does not end the history
                if not any(x['class'] == cls for x in violations):
                    violations.append(v)
            else:
                violations.append(v)
                blocking.append(v)

        bump('probe:config_%s' % cfg['model'])
        bump('probe:config_sync' if cfg['sync'] else 'probe:config_nsr')
        try:
            hist = system.System(cfg)
        except Exception as e:
            return self._result(plan, [], counters, sets, ['cannot build system: %s: %s' % (type(e).__name__, e)], trace, 0)
        state = {'_star_host': cfg['host'] == 'star'}
        n_applied = 0
        obs_digest = []
        if cfg.get('config_orbit'):
            bump('probe:orbit_loaded_from_configuration')
            self._kepler_oracle(hist, -1, 'construction (orbit from the world configuration: %s)' % cfg['config_orbit'], viol, bump,
                                ride=(prop == 'C17'))
        for i, op in enumerate(plan['ops']):
            label = _op_label(op)
            bump('op:' + op['op'] + (':' + op.get('name', '') if op.get('name') else '') + ('@host' if op.get('target') == 'host' else ''))
            raised = None
            applied = None
            try:
                applied = hist.apply(op)
            except Exception as e:
                raised = e
            if op['op'] == 'stellar' and applied == 'skipped' and raised is None:
                trace.append('%2d %s -> skipped (the tide raiser has no orbit yet)' % (i, label))
                bump('probe:stellar_op_skipped_raiser_without_orbit')
                continue
            if op['op'] == 'w.aug':
                if applied == 'skipped' or applied is None:
                    if raised is None:
                        trace.append('%2d %s -> skipped (nothing stored yet)' % (i, label))
                        continue
                else:
                    op = dict(op, op='w.prop', args={'value': applied})      # for the model: a plain assignment of the new value
            model_apply(state, op, len(getattr(hist, 'all_layers', [])) or None)
            if raised is not None:
                # policy (DESIGN 3.2): an operation that raises mid-cascade ends the history; the only thing asserted is
                # that a fresh twin placed in the same state raises the same exception type.
                bump('probe:operation_raised_' + type(raised).__name__)
                trace.append('%2d %s -> raised %s: %s' % (i, label, type(raised).__name__, str(raised)[:80]))
                traised = None
                try:
                    twin = system.System(cfg)
                    place_twin(twin, state)
                except Exception as e2:
                    traised = e2
                if traised is None or type(traised) is not type(raised):
                    viol('raises-only-in-history', 'raise:%s' % type(raised).__name__,
                         'step %d %s raised %s (%s) but a fresh twin placed in the same state %s' %
                         (i, label, type(raised).__name__, str(raised)[:120],
                          'did not raise' if traised is None else 'raised %s' % type(traised).__name__),
                         exception=type(raised).__name__, op=op['op'])
                break
            n_applied += 1
            trace.append('%2d %s' % (i, label))
            sets['abstract_states'].append(jdigest([cfg['model'], cfg['sync'], cfg['obliq'], _abstract(state)]))
            if prop == 'C17':
                self._kepler_oracle(hist, i, label, viol, bump)
                if blocking:
                    break
                continue
            # ---- C13: fresh twin placed directly in the model state ----
            try:
                twin = system.System(cfg)
                place_twin(twin, state)
            except Exception as e:
                bump('probe:twin_placement_raised_' + type(e).__name__)
                viol('raises-only-in-twin', 'raise:%s' % type(e).__name__,
                     'after step %d %s the history-run system is fine but placing a fresh twin in the same state raised %s: %s'
                     % (i, label, type(e).__name__, str(e)[:120]), exception=type(e).__name__)
                break
            oh, ot = hist.observe(), twin.observe()
            diffs_all = system.compare(oh, ot)
            diffs = [dd for dd in diffs_all if _gating(dd[0])]
            for pth in sorted(set(_qname(p_) for p_, _ in diffs_all if not _gating(p_))):
                bump('probe:nongating_difference_in_' + pth.split('.')[-1])
            bump('probe:checkpoints')
            if oh.get('tidal_heating_global') is not None:
                bump('probe:checkpoints_with_tides_computed')
            if diffs:
                names = sorted(set(_qname(p) for p, _ in diffs))
                trig = _trigger(op)
                viol('fresh-twin', 'stale-after:%s' % trig,
                     'after step %d %s the history-run objects disagree with a freshly built twin placed in the same state on %d '
                     'quantities (%s); first: %s: %s' % (i, label, len(diffs), ', '.join(names[:8]), diffs[0][0], diffs[0][1]),
                     trigger=trig, model=cfg['model'], quantities=names[:12])
                break
            if cfg['model'] in ('cpl', 'ctl') and not cfg.get('host_tides'):
                self._functional_oracle(hist, cfg, i, label, viol, bump)
                if blocking:
                    break
            self._kepler_oracle(hist, i, label, viol, bump, ride=False)
            if blocking:
                break
            self._dynamics_oracle(hist, cfg, i, label, viol, bump)
            if blocking:
                break
        sets['flag_paths'] = sorted(OopStateEngine._flag_paths)
        res = self._result(plan, violations, counters, sets, harness_errors, trace, n_applied)
        return res

    def _result(self, plan, violations, counters, sets, harness_errors, trace, n_applied):
        dig = jdigest([plan['config'], plan['ops'], [(v['clause'], v['class']) for v in violations], trace])
        return {'violations': violations, 'digest': dig, 'key': jdigest([plan['config'], plan['ops']]),
                'nontrivial': n_applied >= 2, 'counters': counters, 'sets': sets, 'harness_errors': harness_errors,
                'trace': trace, 'steps': n_applied,
                'sample': {'config': plan['config'], 'ops': [_op_label(o) for o in plan['ops']]},
                'maxima': {'ops_applied': n_applied}}

    # ------------------------------------------------------------------------------------------
    def _kepler_oracle(self, s, i, label, viol, bump, ride=True):
        for w in s.worlds:
            self._kepler_one(s, w, i, label, viol, bump, ride)
        self._kepler_stellar(s, i, label, viol, bump)

    def _kepler_stellar(self, s, i, label, viol, bump):
        """Around a planet host the orbit object also carries the host's heliocentric orbit (slot 0): the same law with
        the star's and the host's mass."""
        if s.host is s.star or s.star is None:
            return
        o = s.orbit
        try:
            a, n, p = (o.get_semi_major_axis(s.host, for_stellar_orbit=True), o.get_orbital_frequency(s.host, for_stellar_orbit=True),
                       o.get_orbital_period(s.host, for_stellar_orbit=True))
        except Exception:
            return
        if a is None and n is None and p is None:
            return
        bump('probe:kepler_checks_stellar_orbit')
        if a is None or n is None or p is None:
            viol('kepler', 'partial-stellar-orbit', 'after step %d %s the orbit reports only part of the host\'s heliocentric (a, n, P): '
                 'a=%s n=%s P=%s' % (i, label, system._brief(a), system._brief(n), system._brief(p)))
            return
        a_, n_, p_ = np.asarray(a, dtype=float), np.asarray(n, dtype=float), np.asarray(p, dtype=float)
        mu = G * (s.star.mass + s.host.mass)
        with np.errstate(all='ignore'):
            r1 = np.max(np.abs(n_ ** 2 * a_ ** 3 / mu - 1.0))
            r2 = np.max(np.abs(p_ * n_ * 86400.0 / (2 * math.pi) - 1.0))
        if not (r1 <= 1e-9 and r2 <= 1e-12):
            viol('kepler', 'third-law-stellar', 'after step %d %s the host\'s heliocentric orbit is reported as a=%s n=%s P=%s: '
                 'n^2 a^3/(G(M_star+M_host)) - 1 = %.3g, P n/(2 pi) - 1 = %.3g'
                 % (i, label, system._brief(a), system._brief(n), system._brief(p), r1, r2))

    def _kepler_one(self, s, w, i, label, viol, bump, ride=True):
        o = s.orbit
        a, n, p = w.semi_major_axis, w.orbital_frequency, w.orbital_period
        if a is None and n is None and p is None:
            return
        bump('probe:kepler_checks')
        if a is None or n is None or p is None:
            viol('kepler', 'partial-orbit', 'after step %d %s the orbit reports only part of (a, n, P): a=%s n=%s P=%s'
                 % (i, label, system._brief(a), system._brief(n), system._brief(p)))
            return
        a_, n_, p_ = np.asarray(a, dtype=float), np.asarray(n, dtype=float), np.asarray(p, dtype=float)
        mu = G * (s.host.mass + w.mass)
        with np.errstate(all='ignore'):
            r1 = np.max(np.abs(n_ ** 2 * a_ ** 3 / mu - 1.0))
            r2 = np.max(np.abs(p_ * n_ * 86400.0 / (2 * math.pi) - 1.0))
        if not (r1 <= 1e-9 and r2 <= 1e-12):
            viol('kepler', 'third-law', 'after step %d %s the orbit reports a=%s n=%s P=%s: n^2 a^3/(G(M+m)) - 1 = %.3g, '
                 'P n/(2 pi) - 1 = %.3g' % (i, label, system._brief(a), system._brief(n), system._brief(p), r1, r2))
            return
        # the getters of the orbit and of the world must agree
        for name, wv, ov in (('semi_major_axis', a, o.get_semi_major_axis(w)), ('orbital_frequency', n, o.get_orbital_frequency(w)),
                             ('orbital_period', p, o.get_orbital_period(w))):
            if system.compare(wv, ov):
                viol('kepler', 'getter-mismatch', 'after step %d %s world.%s and the orbit getter disagree' % (i, label, name))
                return
        if ride:
            self._ride_conversions(a_, n_, p_, s, w, i, label, viol, bump)

    def _ride_conversions(self, a_, n_, p_, s, w, i, label, viol, bump):
        """Sampling only (declared as such): push the reached values through every conversion pair / compiled twin."""
        from TidalPy.utilities.conversions import conversions as cv
        from TidalPy.utilities.conversions import conversions_x as cx
        M, m = s.host.mass, w.mass

        def ulps(x, y):
            x, y = np.asarray(x, dtype=float), np.asarray(y, dtype=float)
            with np.errstate(all='ignore'):
                return float(np.max(np.abs(x - y) / np.spacing(np.maximum(np.abs(x), np.abs(y)))))
        # "mutual inverses to rounding": the Kepler pair goes through pow(3/2) and cbrt, measured up to 14 ulp on the
        # unchanged tree; 4500 ulp (1e-12 relative) keeps the sampled clauses far away from rounding noise.
        TOL = 4500
        checks = [
            ('rads2days(days2rads(P))', cv.rads2days(cv.days2rads(p_)), p_, 4),
            ('days2rads(rads2days(n))', cv.days2rads(cv.rads2days(n_)), n_, 4),
            ('Au2m(m2Au(a))', cv.Au2m(cv.m2Au(a_)), a_, 4),
            ('myr2sec(sec2myr(P*86400))', cv.myr2sec(cv.sec2myr(p_ * 86400.)), p_ * 86400., 4),
            ('orbital_motion2semi_a(semi_a2orbital_motion(a))', cv.orbital_motion2semi_a(cv.semi_a2orbital_motion(a_, M, m), M, m), a_, 8),
            ('semi_a2orbital_motion(orbital_motion2semi_a(n))', cv.semi_a2orbital_motion(cv.orbital_motion2semi_a(n_, M, m), M, m), n_, 8),
        ]
        a0, n0, p0 = float(a_.ravel()[0]), float(n_.ravel()[0]), float(p_.ravel()[0])
        checks += [
            ('conversions_x.rads2days vs conversions', cx.rads2days(n0), cv.rads2days(n0), 4),
            ('conversions_x.days2rads vs conversions', cx.days2rads(p0), cv.days2rads(p0), 4),
            ('conversions_x.m2Au vs conversions', cx.m2Au(a0), cv.m2Au(a0), 4),
            ('conversions_x.Au2m vs conversions', cx.Au2m(cv.m2Au(a0)), cv.Au2m(cv.m2Au(a0)), 4),
            ('conversions_x.sec2myr vs conversions', cx.sec2myr(p0 * 86400.), cv.sec2myr(p0 * 86400.), 4),
            ('conversions_x.myr2sec vs conversions', cx.myr2sec(p0), cv.myr2sec(p0), 4),
            ('conversions_x.orbital_motion2semi_a vs conversions', cx.orbital_motion2semi_a(n0, M, m), cv.orbital_motion2semi_a(n0, M, m), 8),
            ('conversions_x.semi_a2orbital_motion vs conversions', cx.semi_a2orbital_motion(a0, M, m), cv.semi_a2orbital_motion(a0, M, m), 8),
        ]
        bump('probe:conversion_samples', len(checks))
        for name, got, want, tol in checks:
            u = ulps(got, want)
            if not u <= TOL:
                viol('conversions-sampled', 'conversion:%s' % name.split('(')[0],
                     'after step %d %s: %s is off by %.3g ulp at a reached value (a=%r n=%r P=%r)' % (i, label, name, u, a0, n0, p0),
                     pair=name.split('(')[0])

    def _functional_oracle(self, s, cfg, i, label, viol, bump):
        """C13's last clause for CPL/CTL worlds: the functional API evaluated at the state gives the same numbers.
        Enabled per configuration only if a *fresh* system agrees with the functional API there (otherwise it is a
        pure-input discrepancy outside this technique, counted as functional_oracle_disabled)."""
        w = s.world
        if w.tidal_heating_global is None or w.spin_frequency is None or w.eccentricity is None:
            return
        try:
            from TidalPy.toolbox.quick_tides import quick_tidal_dissipation
        except Exception:
            bump('probe:functional_oracle_unavailable')
            return
        key = (cfg['model'], cfg.get('ctl_method'), cfg['obliq'], cfg['trunc'])
        ok = self._functional_ok.get(key) if hasattr(self, '_functional_ok') else None
        if not hasattr(self, '_functional_ok'):
            self._functional_ok = {}
        if ok is False:
            bump('probe:functional_oracle_disabled')
            return
        try:
            kw = dict(host_mass=s.host.mass, target_radius=w.radius, target_mass=w.mass, target_gravity=w.gravity_surface,
                      target_density=w.density_bulk, target_moi=w.moi, rheology='cpl' if cfg['model'] == 'cpl' else 'ctl',
                      eccentricity=w.eccentricity, obliquity=(w.obliquity if cfg['obliq'] else None),
                      orbital_frequency=w.orbital_frequency, spin_frequency=w.spin_frequency,
                      max_tidal_order_l=2, eccentricity_truncation_lvl=cfg['trunc'])
            out = self._call_quick(quick_tidal_dissipation, kw, w, cfg)
        except Exception as e:
            self._functional_ok[key] = False
            bump('probe:functional_oracle_call_failed_' + type(e).__name__)
            return
        if out is None:
            self._functional_ok[key] = False
            return
        heat = out.get('tidal_heating')
        d = system.compare(w.tidal_heating_global, heat, rtol=1e-9)
        for name, mine, theirs in (('dUdM', w.dUdM, out.get('dUdM')), ('dUdw', w.dUdw, out.get('dUdw')), ('dUdO', w.dUdO, out.get('dUdO')),
                                   ('k2', (w.tides.global_love_by_orderl or {}).get(2), (out.get('love_number_by_orderl') or {}).get(2))):
            d += [('/' + name, x[1]) for x in system.compare(mine, theirs, rtol=1e-9)]
        if ok is None:
            # calibration against the *current* state is only valid if history == twin, which was just checked
            self._functional_ok[key] = not d
            if d:
                bump('probe:functional_oracle_disabled')
            return
        bump('probe:functional_oracle_checks')
        if d:
            viol('functional-api', 'functional-api-differs', 'after step %d %s the objects disagree with quick_tidal_dissipation evaluated at the '
                 'same state: %s' % (i, label, '; '.join('%s %s' % (p_ or '/tidal_heating', m_) for p_, m_ in d[:3])))

    def _dynamics_oracle(self, s, cfg, i, label, viol, bump):
        """C13's last clause for the orbital and spin derivatives: what the orbit / world report equals the functional API
        (TidalPy.dynamics) evaluated at the state and the potential derivatives the objects expose - dual-body formulas
        when the host has its own potentials and this world raises its tides, single-body ones otherwise.  Calibrated per
        configuration class like the other functional oracle (a disagreement on first contact, where history == twin has
        just been shown, is a pure-input discrepancy and switches the clause off for that class)."""
        try:
            from TidalPy.dynamics import semia_eccen_derivatives, semia_eccen_derivatives_dual, spin_rate_derivative
        except Exception:
            bump('probe:dynamics_oracle_unavailable')
            return
        if not hasattr(self, '_dynamics_ok'):
            self._dynamics_ok = {}
        o, h = s.orbit, s.host
        for wi, w in enumerate(s.worlds):
            a, n, e = w.semi_major_axis, w.orbital_frequency, w.eccentricity
            if a is None or n is None or e is None or w.dUdM is None or w.dUdw is None:
                continue
            try:
                da, de, dn = (o.get_semi_major_axis_time_derivative(w), o.get_eccentricity_time_derivative(w),
                              o.get_orbital_motion_time_derivative(w))
            except Exception:
                continue
            if da is None or de is None:
                continue
            key = (cfg['model'], cfg.get('host'), bool(cfg.get('host_tides')), len(s.worlds), wi)
            ok = self._dynamics_ok.get(key)
            if ok is False:
                bump('probe:dynamics_oracle_disabled')
                continue
            host_active = bool(getattr(h, 'tides_on', False)) and getattr(h, 'tides', None) is not None and \
                getattr(h, 'dUdM', None) is not None and w is getattr(o, 'host_tide_raiser', None)
            try:
                if host_active:
                    fa, fe = semia_eccen_derivatives_dual(a, n, e, h.mass, h.dUdM, h.dUdw, w.mass, w.dUdM, w.dUdw)
                else:
                    fa, fe = semia_eccen_derivatives(a, n, e, w.mass, w.dUdM, w.dUdw, h.mass)
                fn_ = -1.5 * (n / a) * fa
                d = [('/da_dt', x[1]) for x in system.compare(da, fa, rtol=1e-9)]
                d += [('/de_dt', x[1]) for x in system.compare(de, fe, rtol=1e-9)]
                d += [('/dn_dt', x[1]) for x in system.compare(dn, fn_, rtol=1e-9)]
                if w.dUdO is not None and getattr(w, 'moi', None) is not None:
                    d += [('/spin_derivative', x[1]) for x in
                          system.compare(w.calc_spin_derivative(), spin_rate_derivative(w.dUdO, w.moi, h.mass), rtol=1e-9)]
            except Exception as ex:
                self._dynamics_ok[key] = False
                bump('probe:dynamics_oracle_call_failed_' + type(ex).__name__)
                continue
            if ok is None:
                self._dynamics_ok[key] = not d
                if d:
                    bump('probe:dynamics_oracle_disabled')
                continue
            bump('probe:dynamics_oracle_checks')
            if host_active:
                bump('probe:dynamics_oracle_dual_body')
            if d:
                viol('functional-api', 'dynamics-differs', 'after step %d %s the orbital / spin derivatives reported for %s disagree with '
                     'TidalPy.dynamics evaluated at the same state (%s-body): %s' %
                     (i, label, 'the world' if wi == 0 else 'companion %d' % wi, 'dual' if host_active else 'single',
                      '; '.join('%s %s' % (p_, m_) for p_, m_ in d[:3])))
                return

    @staticmethod
    def _call_quick(fn, kw, w, cfg):
        import inspect
        params = inspect.signature(fn).parameters
        call = {k: v for k, v in kw.items() if k in params}
        for name, val in (('fixed_q', w.fixed_q), ('fixed_dt', w.fixed_dt), ('static_k2', w.tides.fixed_k2), ('fixed_k2', w.tides.fixed_k2),
                          ('tidal_scale', w.tidal_scale), ('use_obliquity', cfg['obliq']), ('ctl_calc_method', cfg.get('ctl_method'))):
            if name in params and val is not None:
                call[name] = val
        missing = [p for p, v in params.items() if v.default is inspect._empty and p not in call
                   and v.kind in (v.POSITIONAL_OR_KEYWORD, v.KEYWORD_ONLY)]
        if missing:
            return None
        out = fn(**call)
        if isinstance(out, dict):
            return out
        return None

    # ------------------------------------------------------------------------------------------
    def rule_text(self):
        if self.prop == 'C17':
            return ('each evaluation is a seeded history of 3-14 orbit updates (period / frequency / semi-major axis / eccentricity) '
                    'through every API path (world.set_state, orbit.set_state, the orbit setters by instance or name, the world '
                    'property setters and aliases), scalars or length-3/5 arrays, on CPL/CTL/layered worlds around a star or a '
                    'giant host; after every update n^2 a^3 = G(M+m) and P = 2 pi/(86400 n) are checked with a harness-owned '
                    'formula. distinct = distinct (configuration, operation list); non-trivial = at least two updates applied.')
        return ('each evaluation is a seeded history of 3-14 state changes (T, period|frequency|axis, e, obliquity, spin, time, '
                'fixed Q/dt; single or batched; via world or orbit; scalars or arrays) on real CPL / CTL / layered worlds; after '
                'every step a brand-new system is built and placed directly in the reference model\'s state and every exposed '
                'derived quantity must agree to 1e-12 (NaN == NaN). distinct = distinct (configuration, operation list); '
                'non-trivial = at least two state changes applied.')

    def components(self):
        return {'real': ['build_world, PhysicsOrbit, TidalWorld/LayeredWorld, PhysicsLayer, Rheology, GlobalApproxTides/LayeredTides, numba kernels (JIT, 1 thread)'],
                'stub': ['none (no clock, I/O or concurrency exists on this path)']}

    def assumptions(self):
        return ['only calls the API documents as legal are generated (one of period/frequency/axis at a time, time at orbit level, '
                'no explicit spin on force_spin_sync worlds)',
                'an operation that raises ends the history; only "the twin raises the same type" is asserted there',
                'cooling / surface temperature / dT/dt are not observed (order-dependent fixed point by construction, not in the property)',
                'relative tolerance 1e-12 on quantities that are bit-identical on agreeing histories']


NONGATING = ('viscosity', 'shear_modulus', 'complex_compliances', 'radiogenic_heating', 'temperature',
             'tidal_susceptibility', 'time', 'fixed_q', 'fixed_dt')


def _qname(path):
    return path.split('/')[1] if path.startswith('/') else path


def _gating(path):
    """The property lists: tidal frequencies, Love numbers, global and per-layer tidal heating, potential derivatives,
    orbital and spin derivatives.  Other exposed values are compared too, but only counted (non-gating probes)."""
    return _qname(path).split('.')[-1] not in NONGATING


def _has_spin(op):
    return any(k in SPIN_KINDS for k in op.get('args', {})) or op.get('kind') in SPIN_KINDS


def _abstract(state):
    out = {}
    for k, v in state.items():
        if k.startswith('_'):
            out[k] = v
        elif k.startswith('body') or k in ('host', 'stellar'):
            out[k] = _abstract(v)
        elif k == 'T':
            out[k] = {str(i): (x['v'], x['arr']) for i, x in v.items()}
        elif isinstance(v, tuple):
            out[k] = (v[0], repr(v[1].get('raw', v[1].get('v'))), v[1].get('arr'), v[1].get('nudge'))
        else:
            out[k] = (repr(v.get('raw', v.get('v'))), v.get('arr'), v.get('nudge'))
    return out


def _trigger(op):
    """What kind of change the failing step made (used as the violation class, so one stale path = one class)."""
    if op['op'] == 'o.set_states':
        return 'set_states:' + '+'.join(sorted(('sep' if k in SEP_KINDS else k) for k in op['lists']))
    if op['op'] == 'stellar':
        return 'stellar-%s' % ('eccentricity' if op['field'] == 'eccentricity' else 'distance')
    if op.get('target') == 'host' and _is_orbital(op):
        return 'via-host:' + _trigger({k: v for k, v in op.items() if k != 'target'})
    if op['op'] in ('w.set_state', 'o.set_state'):
        keys = sorted(('sep' if k in SEP_KINDS else 'spin' if k in SPIN_KINDS else k) for k in op['args'])
        return '+'.join(keys)
    if op['op'] == 'o.setter':
        k = op['name'][4:]
        return 'sep' if k in SEP_KINDS else k
    if op['op'] in ('w.prop', 'w.method', 'w.aug'):
        k = op['kind']
        return ('aug:' if op['op'] == 'w.aug' else '') + ('sep' if k in SEP_KINDS else 'spin' if k in SPIN_KINDS else k)
    if op['op'] == 'tides.set_state':
        return '+'.join(sorted(op['args']))
    if op['op'] == 'o.time':
        return 'time'
    return 'temperature'


def _op_label(op):
    if op['op'] == 'o.set_host_tide_raiser':
        return 'o.set_host_tide_raiser(body%d by %s)' % (op['body'], op.get('sig'))
    if op['op'] == 'o.set_states':
        def val0(v):
            return ('%g' % v['v']) + ('[]' if v.get('arr') else '')
        return 'o.set_states(%s by %s; %s)' % (['body%d' % t for t in op['targets']], op.get('sig'),
                                               ', '.join('%s=[%s]' % (k, ', '.join(val0(x) for x in v)) for k, v in op['lists'].items()))
    if op['op'] == 'stellar':
        v = op['args']['value']
        who = 'host' if op['target'] == 'host' else 'body%d' % op['target']
        val = ('%g' % v['v']) + ('[]' if v.get('arr') else '') if isinstance(v, dict) and 'v' in v else 'raw'
        call = {'w.prop': '%s.stellar_%s = %s' % (who, op['field'], val),
                'o.method': 'o.set_stellar_%s(%s by %s, %s)' % (op['field'], who, op.get('sig'), val),
                'o.set_state': 'o.set_state(%s by %s, %s=%s, set_stellar_orbit=True)' % (who, op.get('sig'), op['field'], val),
                'o.setter': 'o.set_%s(%s by %s, %s, set_stellar_orbit=True)' % (op['field'], who, op.get('sig'), val)}[op['how']]
        return call
    return _op_label1(op)


def _op_label1(op):
    if op['op'] == 'w.aug':
        return 'w.%s *= %g  (in place%s)' % (op['name'], op['factor'], '; body%s' % op['target'] if op.get('target') else '')

    def val(v):
        if isinstance(v, dict) and 'raw' in v:
            return 'raw'
        if isinstance(v, dict):
            return ('%g' % v['v']) + ('[]' if v.get('arr') else '') + ('(0@%d)' % v['zero_at'] if v.get('zero_at') else '') + \
                ('*(1+%g)' % v['nudge'] if v.get('nudge') else '')
        return repr(v)
    args = ', '.join('%s=%s' % (k, val(v)) for k, v in op.get('args', {}).items())
    name = op.get('name')
    if op.get('target'):
        args = '%s; %s' % ('host' if op['target'] == 'host' else 'body%d' % op['target'], args)
    if op['op'] == 'layer.temperature':
        return 'layer[%d].%s(%s)' % (op['layer'], name, args)
    return '%s%s(%s)' % (op['op'], '.' + name if name else '', args)
