"""Sensitivity mutants for C13 / C17: (module, label, old text, new text)."""
BASE = 'TidalPy.tides.methods.base'
GA = 'TidalPy.tides.methods.global_approx'
LT = 'TidalPy.tides.methods.layered'
WT = 'TidalPy.structures.world_types.tidal'
WB = 'TidalPy.structures.world_types.basic'
OB = 'TidalPy.structures.orbit.base'
RH = 'TidalPy.rheology.rheology'
OP = 'TidalPy.structures.orbit.physics'
CV = 'TidalPy.utilities.conversions.conversions'

C13 = [
    (BASE, 'terms-not-rebuilt-after-e-or-obliquity', "if spin_freq_changed or orbital_freq_changed or orbital_functions_updated:",
     "if spin_freq_changed or orbital_freq_changed:"),
    (GA, 'love-not-rebuilt-after-fixed-q', "        self.update_complex_love()\n\n        self.collapse_modes()", "        self.collapse_modes()"),
    (BASE, 'no-collapse-after-new-terms', "                self._new_tidal_frequencies = True\n                self._need_to_collapse_modes = True",
     "                self._new_tidal_frequencies = True"),
    (BASE, 'susceptibility-not-updated', "        if orbital_freq_changed:\n            # Orbital changes may have changed the tidal susceptibility",
     "        if orbital_freq_changed and self._tidal_susceptibility is None:\n            # Orbital changes may have changed the tidal susceptibility"),
    (WT, 'world-drops-eccentricity-flag', "                eccentricity_change=eccentricity_changed,", "                eccentricity_change=False,"),
    (WT, 'world-drops-spin-flag', "                spin_freq_changed=spin_freq_changed\n                )", "                spin_freq_changed=False\n                )"),
    (WB, 'set_state-semi-major-axis-not-a-frequency-change',
     "            if new_semi_major_axis and not new_orbital_frequency:\n                # A change to the orbital semi-major axis will also change the spin frequency\n                new_orbital_frequency = True",
     "            if new_semi_major_axis and not new_orbital_frequency:\n                pass"),
    (WB, 'set_state-forgets-spin-sync', "            if new_orbital_frequency and self.force_spin_sync:", "            if False and self.force_spin_sync:"),
    (OB, 'orbit-setter-forgets-spin-sync-period',
     "            # Tell the world and orbit that changes were made.\n            self.orbit_changed(world_signature, orbital_freq_changed=True)\n\n    def set_stellar_distance",
     "            # Tell the world and orbit that changes were made.\n            self.orbit_changed(world_signature, orbital_freq_changed=False)\n\n    def set_stellar_distance"),
    (OB, 'orbit_changed-drops-eccentricity-flag', "            eccentricity_changed=eccentricity_changed,\n            obliquity_changed=False,\n            call_orbit_dissipation=False\n            )\n\n        # If world_instance is the host's tide raiser",
     "            eccentricity_changed=False,\n            obliquity_changed=False,\n            call_orbit_dissipation=False\n            )\n\n        # If world_instance is the host's tide raiser"),
    (LT, 'layered-no-collapse-on-compliance-change', "        if collapse_tidal_modes:\n            self.collapse_modes()", "        if False:\n            self.collapse_modes()"),
    (RH, 'rheology-strength-change-skips-compliance', "                self.complex_compliance_model.calculate()\n\n                # Tell the rheology class that the complex compliances have changed.\n                self.complex_compliances_changed()\n",
     "                if self.complex_compliances is None:\n                    self.complex_compliance_model.calculate()\n\n                # Tell the rheology class that the complex compliances have changed.\n                self.complex_compliances_changed()\n"),
    (OB, 'set_states-skips-orbit_changed', "                call_orbit_change=call_orbit_change,\n                set_stellar_orbit=set_stellar_orbit,\n                set_by_world=set_by_world\n                )",
     "                call_orbit_change=False,\n                set_stellar_orbit=set_stellar_orbit,\n                set_by_world=set_by_world\n                )"),
    (OB, 'host-caller-does-not-tell-the-raiser', "            elif set_by_tidal_host:", "            elif False:"),
    # plumbing (not history) mutants: history and twin agree, only the functional-API clause can see them
    (OP, 'single-body-derivatives-with-swapped-masses', "                t.mass, t.dUdM, t.dUdw, h.mass\n                )", "                h.mass, t.dUdM, t.dUdw, t.mass\n                )"),
    (OP, 'dual-body-derivatives-use-host-potential-twice', "                h.mass, h.dUdM, h.dUdw, t.mass, t.dUdM, t.dUdw\n", "                h.mass, h.dUdM, h.dUdw, t.mass, h.dUdM, t.dUdw\n"),
    (WT, 'spin-derivative-with-own-mass', "            self._spin_time_derivative = self.tidal_host.mass * self.dUdO / self.moi", "            self._spin_time_derivative = self.mass * self.dUdO / self.moi"),
]

C17 = [
    (OB, 'set_state-forgets-period', "                self.set_orbital_period(\n                    world_signature, orbital_period, called_from_orbit=True,\n                    set_stellar_orbit=set_stellar_orbit\n                    )\n\n                # Worlds that are forced",
     "                # Worlds that are forced"),
    (OB, 'axis-setter-forgets-frequency', "            self.set_orbital_frequency(\n                world_index, new_orbital_frequency, called_from_orbit=True,\n                set_stellar_orbit=set_stellar_orbit\n                )\n            self.set_orbital_period(\n                world_index, new_orbital_period, called_from_orbit=True,",
     "            self.set_orbital_period(\n                world_index, new_orbital_period, called_from_orbit=True,"),
    (OB, 'kepler-host-mass-only', "        orbital_motion = semi_a2orbital_motion(semi_major_axis, host_mass, world_mass)", "        orbital_motion = semi_a2orbital_motion(semi_major_axis, host_mass)"),
    (OB, 'period-setter-stale-axis', "            self.set_semi_major_axis(\n                world_index, new_semi_major_axis, called_from_orbit=True,\n                set_stellar_orbit=set_stellar_orbit\n                )\n            self.set_orbital_frequency(\n                world_index, new_orbital_frequency, called_from_orbit=True,",
     "            self.set_orbital_frequency(\n                world_index, new_orbital_frequency, called_from_orbit=True,"),
    (OB, 'orbit-getter-period-from-wrong-slot', "        return self.orbital_periods[world_index]", "        return self.orbital_periods[world_index - 1 if world_index > 1 else world_index]"),
]


def mutants_for(prop):
    return C13 if prop == 'C13' else C17
