"""Known-findings matcher.

/verif/known_findings.json is committed and never written at run time.  Every violation an
engine reports carries a *signature*: a small flat dict of stable fields.  An entry with
status "open" whose signature is a sub-dict of the violation's signature (value lists mean
"any of") turns that violation into a KNOWN-FINDING line; entries with status "fixed" suppress
nothing.
"""
import json
import os

from .envsetup import VERIF

PATH = os.path.join(VERIF, 'known_findings.json')


def load(path=PATH):
    if not os.path.exists(path):
        return []
    with open(path) as f:
        data = json.load(f)
    return data.get('findings', [])


def _field_matches(want, have) -> bool:
    if isinstance(want, list):
        return have in want
    if isinstance(want, dict) and 'prefix' in want:
        return isinstance(have, str) and have.startswith(want['prefix'])
    return want == have


def match(entries, property_id: str, signature: dict):
    """Return the first open entry that matches, else None."""
    for e in entries:
        if e.get('status') != 'open' or e.get('property') != property_id:
            continue
        sig = e.get('signature', {})
        if all(k in signature and _field_matches(v, signature[k]) for k, v in sig.items()):
            return e
    return None
