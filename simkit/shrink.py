"""Plan minimiser: greedy descent over engine-supplied candidate simplifications.

A candidate is kept iff `still_fails(candidate)` - the engine defines that as "the same
violation class (clause + signature class) recurs".  Pure function of the plan: no PRNG, no clock.
"""
import copy


def shrink(plan, still_fails, candidates, budget=300, time_budget_s=None):
    import time
    t0 = time.monotonic()
    tried = 0
    seen = set()
    import json
    improved = True
    while improved and tried < budget:
        improved = False
        for cand in candidates(plan):
            if time_budget_s is not None and time.monotonic() - t0 > time_budget_s:
                return plan, tried
            key = json.dumps(cand, sort_keys=True, default=repr)
            if key in seen:
                continue
            seen.add(key)
            tried += 1
            if still_fails(cand):
                plan = cand
                improved = True
                break
            if tried >= budget:
                break
    return plan, tried


def without_chunks(lst, min_len=0):
    """Yield copies of lst with chunks removed: halves first, then single elements (from the end)."""
    n = len(lst)
    if n <= min_len:
        return
    size = n // 2
    while size >= 1:
        starts = list(range(0, n, size))
        for s in reversed(starts):
            new = lst[:s] + lst[s + size:]
            if len(new) >= min_len and len(new) < n:
                yield new
        if size == 1:
            break
        size //= 2


def with_path(plan, path, value):
    """Deep copy of plan with plan[path[0]][path[1]]... = value."""
    new = copy.deepcopy(plan)
    cur = new
    for k in path[:-1]:
        cur = cur[k]
    cur[path[-1]] = value
    return new


def lower_ints(value, floor=0):
    """Candidate smaller values for an int: floor, halfway, value-1."""
    out = []
    if value > floor:
        out.append(floor)
        mid = (value + floor) // 2
        if mid not in (floor, value):
            out.append(mid)
        if value - 1 not in out and value - 1 >= floor:
            out.append(value - 1)
    return out
