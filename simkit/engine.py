"""Base class of the simulation engines."""
from .shrink import shrink


class EngineBase:
    name = 'base'
    source_files = []
    has_sim_clock = False
    sim_time_note = 'the code under test reads no clock on this path; nothing to simulate'
    fault_note = 'faults are injected by this engine; see fault_kinds_fired'

    def __init__(self, prop):
        self.prop = prop

    # -- to implement --
    def prepare(self, tier):
        pass

    def tier_config(self, tier):
        raise NotImplementedError

    def gen_plan(self, seed, tier):
        raise NotImplementedError

    def run_plan(self, plan):
        raise NotImplementedError

    def shrink_candidates(self, plan):
        return iter(())

    def plan_size(self, plan):
        import json
        return len(json.dumps(plan, default=repr))

    def pre_checks(self, tier, base_seed, workers):
        return {'harness_errors': [], 'results': [], 'summary': {}}

    def rule_text(self):
        return ''

    def components(self):
        return {}

    def assumptions(self):
        return []

    def after_mutation(self):
        """Called by the sensitivity self-test after the code under test was re-executed in memory."""
        pass

    def is_known(self, v):
        from . import findings
        if not hasattr(self, '_known'):
            self._known = findings.load()
        return findings.match(self._known, v['property'], v.get('signature', {})) is not None

    # -- generic --
    def job(self, kind, payload):
        if kind == 'seed':
            seed, tier = payload
            plan = self.gen_plan(seed, tier)
            res = self.run_plan(plan)
            out = {'seed': seed, 'result': res}
            if res.get('violations'):
                out['plan'] = plan
            res.pop('trace', None) if not res.get('violations') else None
            return out
        if kind == 'plan':
            res = self.run_plan(payload)
            return {'seed': None, 'plan': payload, 'result': res}
        if kind == 'shrink':
            plan, vclass, budget = payload

            def still_fails(cand):
                try:
                    r = self.run_plan(cand)
                except Exception:
                    return False
                return any(_vclass(v) == vclass for v in r.get('violations', []))

            minplan, tried = shrink(plan, still_fails, self.shrink_candidates, budget=budget,
                                    time_budget_s=getattr(self, 'shrink_time_budget_s', 240.0))
            return (minplan, tried, self.run_plan(minplan))
        return self.custom_job(kind, payload)

    def custom_job(self, kind, payload):
        raise ValueError('unknown job kind %r' % (kind,))


def _vclass(v):
    return '%s|%s|%s' % (v.get('property'), v.get('clause'), v.get('class', ''))
