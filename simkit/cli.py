"""./check <property> [--tier quick|thorough] [--replay file] ...   (see DESIGN.md section 6)

Exit codes: 0 property held on everything explored (known findings are printed, not counted);
1 at least one violation not listed in known_findings.json (line `VIOLATION property=<id> replay=<path>`);
2 harness error (determinism/fidelity self-test failed, worker exception);  3 harness timeout.
"""
import argparse
import json
import os
import subprocess
import sys
import time

from . import envsetup, findings
from .draw import subseed, digest
from .runner import run_jobs

ENGINES = {
    'C18': ('sims.mpstudy.engine', 'MpStudyEngine'),
    'C13': ('sims.oopstate.engine', 'OopStateEngine'),
    'C17': ('sims.oopstate.engine', 'OopStateEngine'),
    'C06': ('sims.solverfaults.engine', 'SolverFaultsEngine'),
    'C16': ('sims.worldchain.engine', 'WorldChainEngine'),
}

DEFAULT_SEED = {'quick': 20261004, 'thorough': 20261005}


def make_engine(prop):
    import importlib
    modname, clsname = ENGINES[prop]
    mod = importlib.import_module(modname)
    return getattr(mod, clsname)(prop)


def parse_args(argv):
    ap = argparse.ArgumentParser(prog='check')
    ap.add_argument('property')
    ap.add_argument('--tier', default=os.environ.get('VERIF_TIER', 'quick'), choices=['quick', 'thorough'])
    ap.add_argument('--replay', default=None)
    ap.add_argument('--runs', type=int, default=None, help='override number of simulated runs')
    ap.add_argument('--workers', type=int, default=int(os.environ.get('VERIF_WORKERS', '16')))
    ap.add_argument('--digests', default=None, help='internal: comma separated seeds, print {seed: digest}')
    ap.add_argument('--budget-s', type=float, default=None, help='wall-clock budget of the exploration batch')
    ap.add_argument('--no-evidence', action='store_true')
    ap.add_argument('--no-selftest', action='store_true')
    ap.add_argument('--seed-list', default=None, help='run exactly these run-seeds (comma separated)')
    return ap.parse_args(argv)


def main(argv=None):
    argv = list(sys.argv[1:] if argv is None else argv)
    args = parse_args(argv)
    if args.property not in ENGINES:
        print('unknown or unclaimed property %s' % args.property)
        return 2
    if os.environ.get('VERIF_CHILD') != '1':
        cap = 900 if args.tier == 'quick' else 4 * 3600
        return envsetup.run_in_child(['-m', 'simkit.cli'] + argv, wall_cap_s=cap)
    try:
        return _main_child(args)
    except SystemExit:
        raise
    except BaseException:
        import traceback
        traceback.print_exc()
        print('HARNESS-ERROR: unhandled exception in the check driver', flush=True)
        return 2


def _vclass(v):
    return '%s|%s|%s' % (v.get('property'), v.get('clause'), v.get('class', ''))


def _main_child(args):
    t_start = time.monotonic()
    prop = args.property
    tier = args.tier
    base_seed = int(os.environ.get('VERIF_SEED', DEFAULT_SEED[tier]))
    overlay, rebuilt, rebuild_errors = (None, [], [])
    if os.environ.get('VERIF_OVERLAY'):
        overlay = os.environ['VERIF_OVERLAY']
    else:
        overlay, rebuilt, rebuild_errors = envsetup.rebuild_stale_c_extensions(envsetup.scratch_dir())
        if overlay:
            os.environ['VERIF_OVERLAY'] = overlay
            os.environ['PYTHONPATH'] = overlay + os.pathsep + os.environ.get('PYTHONPATH', '')
            print('rebuilt %d compiled extension(s) whose .c is newer than the .so: %s' % (len(rebuilt), ', '.join(rebuilt)), flush=True)
    if overlay:
        sys.path.insert(0, overlay)
    engine = make_engine(prop)
    engine.rebuilt_extensions = rebuilt
    engine.prepare(tier)

    if args.digests is not None:
        out = {}
        for s in [int(x) for x in args.digests.split(',') if x]:
            r = engine.job('seed', (s, tier))
            out[str(s)] = r['result']['digest']
        print('DIGESTS ' + json.dumps(out, sort_keys=True))
        return 0

    known = findings.load()

    if args.replay:
        return _replay(engine, prop, args.replay, known)

    cfg = engine.tier_config(tier)
    n_runs = args.runs if args.runs is not None else cfg['runs']
    budget_s = args.budget_s if args.budget_s is not None else cfg['budget_s']
    if args.seed_list:
        seeds = [int(x) for x in args.seed_list.split(',') if x]
    else:
        seeds = [subseed(base_seed, prop, i) for i in range(n_runs)]
    print('check %s tier=%s VERIF_SEED=%d runs<=%d budget=%.0fs workers=%d' %
          (prop, tier, base_seed, len(seeds), budget_s, args.workers), flush=True)

    harness_errors = ['rebuild of a stale extension failed: %s' % e for e in rebuild_errors]

    # ---- extra deterministic parts of the check (fidelity of stubs, directed scenarios, sweeps) ----
    pre = engine.pre_checks(tier, base_seed, args.workers)
    if pre.get('abort'):
        # the engine cannot give a verdict on this tree at all (e.g. a seam it does not own): say so, judge nothing
        print('HARNESS-ERROR: %s' % pre['abort'], flush=True)
        print('summary: runs=0 - no verdict (this is not a statement about the property)', flush=True)
        return 2
    harness_errors += pre.get('harness_errors', [])
    extra_results = pre.get('results', [])   # list of {'seed':..,'plan':..,'result':..}

    # ---- exploration batch ----
    agg = Aggregate(engine)
    for item in extra_results:
        agg.add(item)
    jobs = [('seed', (s, tier)) for s in seeds]
    deadline = time.monotonic() + budget_s
    t_batch = time.monotonic()

    def on_result(res):
        idx, status, out = res
        if status == 'ok':
            agg.add(out)
        elif status == 'skipped':
            agg.skipped += 1
        else:
            agg.harness_fail(seeds[idx], status, out)

    run_jobs(engine, jobs, workers=args.workers, job_cap_s=cfg.get('job_cap_s', 120.0), deadline=deadline,
             on_result=on_result)
    batch_wall = time.monotonic() - t_batch
    harness_errors += agg.harness_errors

    # ---- determinism self-test ----
    det = {'skipped': True}
    if not args.no_selftest:
        det = _determinism_selftest(engine, prop, tier, agg, cfg)
        if not det['ok']:
            harness_errors.append('determinism self-test failed: %s' % det.get('detail'))

    # ---- classify violations ----
    unknown = {}   # vclass -> list of (seed, plan, violation)
    known_hits = {}  # finding id -> [count, what]
    for seed, plan, v in agg.violations:
        e = findings.match(known, v['property'], v.get('signature', {}))
        if e is not None:
            rec = known_hits.setdefault(e['id'], [0, e['what'], v['property']])
            rec[0] += 1
        else:
            unknown.setdefault(_vclass(v), []).append((seed, plan, v))

    for fid, (count, what, p) in sorted(known_hits.items()):
        print('KNOWN-FINDING: property=%s %s [%s; seen %d times this run]' % (p, what, fid, count), flush=True)

    # ---- minimise + replay-verify + report unknown violations ----
    replay_paths = []
    if unknown:
        shrink_jobs = []
        classes = sorted(unknown.keys())
        for vc in classes[:cfg.get('max_reported_classes', 10)]:
            seed, plan, v = min(unknown[vc], key=lambda t: engine.plan_size(t[1]))
            shrink_jobs.append(('shrink', (plan, vc, cfg.get('shrink_budget', 200))))
        sres = run_jobs(engine, shrink_jobs, workers=args.workers, job_cap_s=cfg.get('shrink_cap_s', 600.0))
        for idx, status, out in sorted(sres, key=lambda r: r[0]):
            vc = classes[idx]
            seed, plan, v = min(unknown[vc], key=lambda t: engine.plan_size(t[1]))
            if status == 'ok':
                minplan, tried, mres = out
                mv = [x for x in mres['violations'] if _vclass(x) == vc]
                vrep = mv[0] if mv else v
            else:
                minplan, tried, mres, vrep = plan, 0, None, v
            path = _write_replay(prop, seed, tier, minplan, plan, vrep, mres, engine, tried)
            ok = _verify_replay_fresh(prop, path)
            replay_paths.append(path)
            print('VIOLATION property=%s replay=%s' % (vrep['property'], path))
            print('  clause=%s class=%s seed=%d fresh-process-replay=%s' % (vrep.get('clause'), vrep.get('class'), seed, ok))
            print('  %s' % vrep.get('message', '').replace('\n', '\n  '), flush=True)
        if len(classes) > cfg.get('max_reported_classes', 10):
            print('  (+%d further violation classes not minimised)' % (len(classes) - cfg.get('max_reported_classes', 10)))

    n_unknown = sum(len(v) for v in unknown.values())
    wall = time.monotonic() - t_start

    if not args.no_evidence:
        _write_evidence(engine, prop, tier, base_seed, agg, det, pre, known_hits, n_unknown, wall, batch_wall, harness_errors)

    print('summary: runs=%d distinct_nontrivial=%d violations(unknown)=%d known-finding-hits=%d harness_errors=%d wall=%.1fs' %
          (agg.evaluations, len(agg.keys_nontrivial), n_unknown, sum(c for c, _, _ in known_hits.values()),
           len(harness_errors), wall), flush=True)
    for he in harness_errors[:10]:
        print('HARNESS-ERROR: %s' % str(he)[:2000], flush=True)
    if n_unknown:
        return 1
    if harness_errors:
        return 2
    if agg.evaluations == 0:
        print('HARNESS-ERROR: nothing was explored')
        return 2
    return 0


class Aggregate:
    def __init__(self, engine):
        self.engine = engine
        self.evaluations = 0
        self.keys_nontrivial = set()
        self.keys_all = set()
        self.counters = {}
        self.sets = {}
        self.violations = []
        self.samples = []
        self.sim_time_s = 0.0
        self.steps = 0
        self.skipped = 0
        self.harness_errors = []
        self.digests = {}
        self.maxima = {}

    def add(self, item):
        r = item['result']
        self.evaluations += 1
        self.keys_all.add(r['key'])
        if r.get('nontrivial'):
            self.keys_nontrivial.add(r['key'])
        for k, v in r.get('counters', {}).items():
            self.counters[k] = self.counters.get(k, 0) + v
        for k, vals in r.get('sets', {}).items():
            self.sets.setdefault(k, set()).update(vals)
        for k, v in r.get('maxima', {}).items():
            if k not in self.maxima or v > self.maxima[k]:
                self.maxima[k] = v
        self.sim_time_s += r.get('sim_time_s', 0.0)
        self.steps += r.get('steps', 0)
        if item.get('seed') is not None:
            self.digests[item['seed']] = r['digest']
        for v in r.get('violations', []):
            self.violations.append((item.get('seed') if item.get('seed') is not None else -1, item.get('plan'), v))
        if r.get('sample') is not None and len(self.samples) < 4 and r.get('nontrivial'):
            self.samples.append(r['sample'])
        for he in r.get('harness_errors', []):
            self.harness_errors.append('seed %s: %s' % (item.get('seed'), he))

    def harness_fail(self, seed, status, out):
        self.harness_errors.append('seed %d: %s: %s' % (seed, status, str(out)[-1500:]))


def _determinism_selftest(engine, prop, tier, agg, cfg):
    """Re-run a sample of this batch's seeds (a) in this process, twice, and (b) in a fresh interpreter with
    another PYTHONHASHSEED; event-log digests must equal those the pool workers produced."""
    k = cfg.get('determinism_seeds', 8)
    sample = sorted(agg.digests.keys())[:k]
    if not sample:
        return {'ok': True, 'seeds': 0, 'detail': 'no seeds'}
    mism = []
    for s in sample:
        for rep in range(2):
            d = engine.job('seed', (s, tier))['result']['digest']
            if d != agg.digests[s]:
                mism.append('seed %d in-process rep %d: %s != %s' % (s, rep, d, agg.digests[s]))
    env = dict(os.environ)
    env['PYTHONHASHSEED'] = '4242'
    fresh = None
    try:
        out = subprocess.run([sys.executable, '-m', 'simkit.cli', prop, '--tier', tier, '--digests',
                              ','.join(str(s) for s in sample)], env=env, cwd=envsetup.VERIF,
                             capture_output=True, text=True, timeout=cfg.get('fresh_cap_s', 600))
        for line in out.stdout.splitlines():
            if line.startswith('DIGESTS '):
                fresh = json.loads(line[8:])
        if fresh is None:
            mism.append('fresh interpreter produced no digests: rc=%s stderr=%s' % (out.returncode, out.stderr[-800:]))
        else:
            for s in sample:
                if fresh.get(str(s)) != agg.digests[s]:
                    mism.append('seed %d fresh interpreter (PYTHONHASHSEED=4242): %s != %s' % (s, fresh.get(str(s)), agg.digests[s]))
    except subprocess.TimeoutExpired:
        mism.append('fresh interpreter timed out')
    return {'ok': not mism, 'seeds': len(sample), 'executions_compared': len(sample) * 3, 'detail': mism[:5],
            'modes': ['pool worker (forked, arbitrary predecessor runs)', 'driver process x2',
                      'fresh interpreter with PYTHONHASHSEED=4242']}


def _write_replay(prop, seed, tier, minplan, origplan, v, mres, engine, tried):
    os.makedirs(os.path.join(envsetup.VERIF, 'replays'), exist_ok=True)
    body = {
        'property': v['property'], 'engine': engine.name, 'seed': seed, 'tier': tier,
        'violation': {k: v.get(k) for k in ('property', 'clause', 'class', 'signature', 'message')},
        'plan': minplan,
        'plan_size': engine.plan_size(minplan), 'original_plan_size': engine.plan_size(origplan),
        'shrink_executions': tried,
        'event_digest': (mres or {}).get('digest'),
        'trace': (mres or {}).get('trace'),
        'sources': envsetup.source_fingerprint(engine.source_files),
        'replay_cmd': './check %s --replay <this file>' % prop,
    }
    name = '%s-%d-%s.json' % (v['property'], seed, digest(minplan)[:8])
    path = os.path.join(envsetup.VERIF, 'replays', name)
    with open(path, 'w') as f:
        json.dump(body, f, indent=1, sort_keys=True, default=repr)
    return path


def _verify_replay_fresh(prop, path):
    try:
        out = subprocess.run([sys.executable, '-m', 'simkit.cli', prop, '--replay', path], cwd=envsetup.VERIF,
                             capture_output=True, text=True, timeout=900)
        return out.returncode == 1 and 'REPLAY-REPRODUCED' in out.stdout
    except subprocess.TimeoutExpired:
        return False


def _replay(engine, prop, path, known):
    with open(path) as f:
        body = json.load(f)
    plan = body['plan']
    res = engine.job('plan', plan)['result']
    want = _vclass(body['violation'])
    got = [v for v in res['violations'] if _vclass(v) == want]
    print('replay %s: %d violation(s), %d of the recorded class %s; event digest %s (recorded %s)' %
          (path, len(res['violations']), len(got), want, res['digest'], body.get('event_digest')))
    for line in res.get('trace', [])[-60:]:
        print('   ' + str(line))
    if got:
        v = got[0]
        same_digest = (body.get('event_digest') in (None, res['digest']))
        print('REPLAY-REPRODUCED digest_equal=%s' % same_digest)
        e = findings.match(known, v['property'], v.get('signature', {}))
        if e is not None:
            print('KNOWN-FINDING: property=%s %s [%s]' % (v['property'], e['what'], e['id']))
        print('VIOLATION property=%s replay=%s' % (v['property'], path))
        print('  %s' % v.get('message', ''))
        return 1
    for v in res['violations']:
        print('  other violation: %s: %s' % (_vclass(v), v.get('message', '')[:300]))
    print('REPLAY-NOT-REPRODUCED')
    return 0


def _write_evidence(engine, prop, tier, base_seed, agg, det, pre, known_hits, n_unknown, wall, batch_wall, harness_errors):
    os.makedirs(os.path.join(envsetup.VERIF, 'evidence'), exist_ok=True)
    runs_per_hour = int(agg.evaluations / batch_wall * 3600) if batch_wall > 0 else 0
    cov = {
        'evaluations': agg.evaluations,
        'distinct_nontrivial': len(agg.keys_nontrivial),
        'distinct_all': len(agg.keys_all),
        'rule': engine.rule_text(),
        'samples': agg.samples[:4] if agg.samples else [{'note': 'no non-trivial run produced a sample'}],
        'runs_per_hour_measured': runs_per_hour,
        'seeds_per_hour_measured': runs_per_hour,
        'batch_wall_s': round(batch_wall, 2),
        'simulated_time_s': round(agg.sim_time_s, 1) if engine.has_sim_clock else None,
        'simulated_time_note': engine.sim_time_note,
        'seam_steps': agg.steps,
        'fault_kinds_fired': {k[6:]: v for k, v in sorted(agg.counters.items()) if k.startswith('fault:')},
        'fault_note': engine.fault_note,
        'probes': {k[6:]: v for k, v in sorted(agg.counters.items()) if k.startswith('probe:')},
        'ops': {k[3:]: v for k, v in sorted(agg.counters.items()) if k.startswith('op:')},
        'other_counters': {k: v for k, v in sorted(agg.counters.items()) if ':' not in k},
        'distinct_measures': {k: len(v) for k, v in sorted(agg.sets.items())},
        'maxima': agg.maxima,
        'components': engine.components(),
        'determinism_selftest': det,
        'directed_and_fidelity': pre.get('summary', {}),
        'runs_skipped_at_deadline': agg.skipped,
        'known_findings_seen': {fid: {'count': c, 'what': w} for fid, (c, w, _) in sorted(known_hits.items())},
        'stale_extensions': envsetup.stale_extensions(),
        'extensions_rebuilt_from_newer_c': getattr(engine, 'rebuilt_extensions', []),
        'harness_errors': [str(h)[:500] for h in harness_errors[:10]],
        'sources': envsetup.source_fingerprint(engine.source_files),
        'exhaustive': False,
    }
    ev = {
        'property_id': prop, 'tier': tier, 'seed': base_seed, 'level': 'exploration',
        'coverage': cov,
        'assumptions': engine.assumptions(),
        'wall_s': round(wall, 2),
        'violations': n_unknown,
    }
    path = os.path.join(envsetup.VERIF, 'evidence', '%s.json' % prop)
    with open(path, 'w') as f:
        json.dump(ev, f, indent=1, sort_keys=True, default=repr)


if __name__ == '__main__':
    sys.exit(main())
