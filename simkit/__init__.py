"""simkit - common machinery for the deterministic-simulation checks (see /verif/DESIGN.md section 2)."""
