"""Sensitivity self-test: every in-memory mutant of the code under test must be reported as a violation by the
engine within `runs` seeded runs.  Prints one line per mutant and writes /verif/sensitivity/<property>.json."""
import importlib
import json
import os
import sys
import time

from . import envsetup
from .draw import subseed
from .mutate import Mutant


def main():
    argv = sys.argv[1:]
    if os.environ.get('VERIF_CHILD') != '1':
        return envsetup.run_in_child(['-m', 'simkit.selftest'] + argv, wall_cap_s=3600)
    if argv[0] == 'cmutants':
        from sims.solverfaults import cmutants
        return cmutants.main(argv[1:])
    mode, prop = argv[0], argv[1]
    runs = int(argv[2]) if len(argv) > 2 else 400
    from .cli import make_engine, ENGINES
    engine = make_engine(prop)
    engine.prepare('quick')
    mm = importlib.import_module(ENGINES[prop][0].rsplit('.', 1)[0] + '.mutants')
    mutants = mm.mutants_for(prop) if hasattr(mm, 'mutants_for') else [(mm.MOD,) + m for m in mm.MUTANTS]
    out = []
    # baseline: the unmutated tree must be silent on the same seeds
    seeds = [subseed(777, prop, i) for i in range(runs)]
    t0 = time.time()
    base_viol = 0
    for s in seeds[:min(runs, 150)]:
        r = engine.job('seed', (s, 'quick'))['result']
        base_viol += len([v for v in r['violations'] if not engine.is_known(v)])
    print('baseline: %d violations in %d runs (%.1fs)' % (base_viol, min(runs, 150), time.time() - t0), flush=True)
    killed = 0
    for modname, label, old, new in mutants:
        t0 = time.time()
        found = None
        try:
            with Mutant(modname, old, new, label):
                engine.after_mutation()
                for n, s in enumerate(seeds):
                    r = engine.job('seed', (s, 'quick'))['result']
                    vs = [v for v in r['violations'] if not engine.is_known(v)]
                    if vs:
                        found = (n + 1, vs[0]['clause'], vs[0]['class'], vs[0]['message'][:160])
                        break
                    if r.get('harness_errors'):
                        found = (n + 1, 'HARNESS', 'harness-error', str(r['harness_errors'][0])[:160])
                        break
            engine.after_mutation()
        except ValueError as e:
            print('MUTANT %-34s NOT-APPLICABLE %s' % (label, e), flush=True)
            out.append({'mutant': label, 'status': 'pattern-missing'})
            continue
        if found and found[1] != 'HARNESS':
            killed += 1
            print('MUTANT %-34s KILLED after %4d runs  %s|%s  %.1fs' % (label, found[0], found[1], found[2], time.time() - t0), flush=True)
            out.append({'mutant': label, 'status': 'killed', 'runs_needed': found[0], 'clause': found[1], 'class': found[2], 'message': found[3]})
        elif found:
            print('MUTANT %-34s HARNESS-ERROR %s' % (label, found[3]), flush=True)
            out.append({'mutant': label, 'status': 'harness-error', 'detail': found[3]})
        else:
            print('MUTANT %-34s SURVIVED %d runs  %.1fs' % (label, runs, time.time() - t0), flush=True)
            out.append({'mutant': label, 'status': 'survived', 'runs': runs})
    os.makedirs(os.path.join(envsetup.VERIF, 'sensitivity'), exist_ok=True)
    with open(os.path.join(envsetup.VERIF, 'sensitivity', '%s.json' % prop), 'w') as f:
        json.dump({'property': prop, 'baseline_violations': base_viol, 'mutants_tried': len(out), 'mutants_killed': killed,
                   'runs_per_mutant_cap': runs, 'results': out}, f, indent=1)
    print('sensitivity %s: %d/%d mutants killed' % (prop, killed, len(out)))
    return 0 if base_viol == 0 else 1


if __name__ == '__main__':
    sys.exit(main())
