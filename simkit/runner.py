"""Batch runner: N forked worker processes, one job at a time each, hard per-job wall cap.

Workers are forked from the (already warmed-up) parent, so TidalPy is imported and numba is
compiled once.  A job is (kind, payload); the engine object lives in the parent and is inherited.
A worker that exceeds its cap is killed and replaced and the job is reported as a harness
timeout (never as success, never as a violation by itself).
"""
import faulthandler
import multiprocessing as mp
import os
import sys
import time
import traceback
from multiprocessing.connection import wait as mp_wait

_CTX = mp.get_context('fork')


def _worker_main(conn, engine, job_cap_s):
    # Runs in the forked child.
    try:
        while True:
            try:
                msg = conn.recv()
            except EOFError:
                break
            if msg is None:
                break
            kind, payload = msg
            faulthandler.dump_traceback_later(job_cap_s * 0.9, exit=False)
            try:
                out = engine.job(kind, payload)
                conn.send(('ok', out))
            except BaseException as exc:  # harness error inside the worker
                conn.send(('err', '%s: %s\n%s' % (type(exc).__name__, exc, traceback.format_exc())))
            finally:
                faulthandler.cancel_dump_traceback_later()
    finally:
        try:
            conn.close()
        except Exception:
            pass
        os._exit(0)


class _Slot:
    def __init__(self, engine, job_cap_s):
        self.engine = engine
        self.job_cap_s = job_cap_s
        self.proc = None
        self.conn = None
        self.job = None
        self.t0 = 0.0
        self.spawn()

    def spawn(self):
        parent_conn, child_conn = _CTX.Pipe()
        self.proc = _CTX.Process(target=_worker_main, args=(child_conn, self.engine, self.job_cap_s), daemon=True)
        self.proc.start()
        child_conn.close()
        self.conn = parent_conn
        self.job = None

    def kill(self):
        try:
            self.proc.kill()
            self.proc.join(5)
        except Exception:
            pass
        try:
            self.conn.close()
        except Exception:
            pass

    def stop(self):
        try:
            self.conn.send(None)
        except Exception:
            pass
        self.proc.join(2)
        if self.proc.is_alive():
            self.kill()


def run_jobs(engine, jobs, workers=16, job_cap_s=120.0, deadline=None, on_result=None):
    """Run jobs [(kind, payload), ...]; returns list of (job_index, status, output) in completion order.

    status: 'ok' | 'err' (exception in worker) | 'timeout' | 'died' | 'skipped' (batch deadline hit)
    """
    jobs = list(jobs)
    results = []
    next_job = 0
    workers = max(1, min(workers, len(jobs))) if jobs else 0
    slots = [_Slot(engine, job_cap_s) for _ in range(workers)]
    try:
        active = 0

        def feed(slot):
            nonlocal next_job, active
            if next_job >= len(jobs):
                return False
            if deadline is not None and time.monotonic() > deadline:
                return False
            slot.job = next_job
            slot.t0 = time.monotonic()
            slot.conn.send(jobs[next_job])
            next_job += 1
            active += 1
            return True

        for s in slots:
            feed(s)
        while active > 0:
            busy = [s for s in slots if s.job is not None]
            ready = mp_wait([s.conn for s in busy], timeout=1.0)
            now = time.monotonic()
            for s in busy:
                if s.conn in ready:
                    job_index = s.job
                    try:
                        status, out = s.conn.recv()
                    except (EOFError, OSError):
                        s.proc.join(2)
                        status, out = 'died', 'worker died (exit code %s)' % s.proc.exitcode
                        s.kill()
                        s.spawn()
                    res = (job_index, status, out)
                    results.append(res)
                    if on_result:
                        on_result(res)
                    s.job = None
                    active -= 1
                    feed(s)
                elif now - s.t0 > s.job_cap_s:
                    res = (s.job, 'timeout', 'job exceeded %.0f s' % s.job_cap_s)
                    s.job = None
                    results.append(res)
                    if on_result:
                        on_result(res)
                    s.kill()
                    s.spawn()
                    active -= 1
                    feed(s)
        for i in range(next_job, len(jobs)):
            results.append((i, 'skipped', 'batch deadline reached'))
    finally:
        for s in slots:
            s.stop()
    return results
