"""One integer decides everything.

`Draw(seed)` wraps one `random.Random`.  Every generated decision of a run goes through it, so a
run is a pure function of its seed and of the code.  The generator functions of the engines turn
a Draw into a *plan* (a JSON-able dict: configuration, operations, faults, schedule); execution
is then a pure function of the plan.  Logging never draws.
"""
import hashlib
import random


def subseed(base_seed: int, *parts) -> int:
    """Derive an independent 63-bit seed from a base seed and labels (stable across processes)."""
    h = hashlib.sha256(('%d|' % base_seed + '|'.join(str(p) for p in parts)).encode()).digest()
    return int.from_bytes(h[:8], 'big') >> 1


class Draw:
    def __init__(self, seed: int):
        self.seed = seed
        self.rng = random.Random(seed)
        self.n_draws = 0

    def below(self, n: int) -> int:
        """int in [0, n)"""
        self.n_draws += 1
        if n <= 1:
            return 0
        return self.rng.randrange(n)

    def between(self, lo: int, hi: int) -> int:
        """int in [lo, hi] inclusive"""
        return lo + self.below(hi - lo + 1)

    def pick(self, seq):
        return seq[self.below(len(seq))]

    def weighted(self, pairs):
        """pairs: [(item, weight:int), ...]"""
        total = sum(w for _, w in pairs)
        k = self.below(total)
        for item, w in pairs:
            if k < w:
                return item
            k -= w
        return pairs[-1][0]

    def chance(self, num: int, den: int) -> bool:
        return self.below(den) < num

    def subset(self, seq, num: int, den: int):
        return [x for x in seq if self.chance(num, den)]

    def shuffled(self, seq):
        out = list(seq)
        for i in range(len(out) - 1, 0, -1):
            j = self.below(i + 1)
            out[i], out[j] = out[j], out[i]
        return out

    def uniform(self, lo: float, hi: float) -> float:
        self.n_draws += 1
        return lo + (hi - lo) * self.rng.random()


def digest(obj) -> str:
    """Stable short digest of a JSON-able object."""
    import json
    return hashlib.sha256(json.dumps(obj, sort_keys=True, default=repr).encode()).hexdigest()[:16]
