"""In-memory mutants for the sensitivity self-test.

A module of /repo is compiled from its source text with one textual replacement applied and executed in a scratch
namespace; the *code objects* of the resulting functions and methods are then swapped into the live function objects of
the real module (and swapped back afterwards).  Swapping code in place keeps every reference, subclass relationship and
`from x import f` binding intact, which re-executing the module in its own namespace would not.  Nothing is written to
disk.  Functions wrapped by numba (`@njit`) are not supported (their dispatcher caches compiled code).
"""
import importlib
import inspect
import types


def _functions_of(ns, modname):
    """{qualified name: function object} for plain functions and methods defined in a namespace."""
    out = {}
    for name, obj in list(ns.items()):
        if isinstance(obj, types.FunctionType) and obj.__module__ == modname:
            out[name] = obj
        elif isinstance(obj, type) and obj.__module__ == modname:
            for attr, val in list(vars(obj).items()):
                q = '%s.%s' % (name, attr)
                if isinstance(val, types.FunctionType):
                    while isinstance(getattr(val, '__wrapped__', None), types.FunctionType):
                        val = val.__wrapped__          # a harness probe wraps the real method: mutate the real one
                    out[q] = val
                elif isinstance(val, (staticmethod, classmethod)):
                    out[q] = val.__func__
                elif isinstance(val, property):
                    if val.fget is not None:
                        out[q + '.fget'] = val.fget
                    if val.fset is not None:
                        out[q + '.fset'] = val.fset
    return out


class Mutant:
    def __init__(self, modname, old, new, label, count=1):
        self.modname, self.old, self.new, self.label, self.count = modname, old, new, label, count
        self.saved = []

    def __enter__(self):
        self.module = importlib.import_module(self.modname)
        source = inspect.getsource(self.module)
        if source.count(self.old) != self.count:
            raise ValueError('mutant %r: pattern occurs %d times, expected %d' % (self.label, source.count(self.old), self.count))
        mutated = source.replace(self.old, self.new)
        ns = dict(self.module.__dict__)
        ns['__name__'] = self.modname
        exec(compile(mutated, self.module.__file__, 'exec'), ns)
        live = _functions_of(self.module.__dict__, self.modname)
        fresh = _functions_of(ns, self.modname)
        changed = 0
        for q, f_new in fresh.items():
            f_old = live.get(q)
            if f_old is None or f_old.__code__ == f_new.__code__:
                continue
            if len(f_old.__code__.co_freevars) != len(f_new.__code__.co_freevars):
                continue
            self.saved.append((f_old, f_old.__code__, f_old.__defaults__, f_old.__kwdefaults__))
            f_old.__code__ = f_new.__code__
            f_old.__defaults__ = f_new.__defaults__
            f_old.__kwdefaults__ = f_new.__kwdefaults__
            changed += 1
        if changed == 0:
            self.__exit__(None, None, None)
            raise ValueError('mutant %r changed no plain Python function (numba-compiled or module-level code?)' % self.label)
        return self

    def __exit__(self, *exc):
        for f, code, defaults, kwdefaults in self.saved:
            f.__code__ = code
            f.__defaults__ = defaults
            f.__kwdefaults__ = kwdefaults
        self.saved = []
        return False
