"""In-memory mutants for the sensitivity self-test: a module of /repo is re-executed from its source text with one
textual replacement applied.  Nothing is written to disk; the original source is re-executed afterwards."""
import importlib
import inspect


class Mutant:
    def __init__(self, modname, old, new, label, count=1):
        self.modname, self.old, self.new, self.label, self.count = modname, old, new, label, count

    def __enter__(self):
        self.module = importlib.import_module(self.modname)
        self.source = inspect.getsource(self.module)
        if self.source.count(self.old) != self.count:
            raise ValueError('mutant %r: pattern occurs %d times, expected %d' % (self.label, self.source.count(self.old), self.count))
        code = compile(self.source.replace(self.old, self.new), self.module.__file__, 'exec')
        exec(code, self.module.__dict__)
        return self

    def __exit__(self, *exc):
        code = compile(self.source, self.module.__file__, 'exec')
        exec(code, self.module.__dict__)
        return False
