"""Process environment for every check.

The check's entry process creates a private scratch directory (outside /repo and /verif), points
TidalPy's user-data directory (XDG_DATA_HOME), numba's cache and TMPDIR into it, pins thread
counts and PYTHONHASHSEED, runs the real work in a child interpreter and removes the scratch
directory afterwards, whatever happened to the child.
"""
import os
import shutil
import subprocess
import sys
import tempfile

REPO = os.environ.get('VERIF_REPO', '/repo')
VERIF = os.path.dirname(os.path.dirname(os.path.abspath(__file__)))
GUARD = 'TIDALPY_VERIF'


def child_env(scratch: str, hashseed: str = '0') -> dict:
    env = dict(os.environ)
    env.update({
        'PYTHONHASHSEED': hashseed,
        'XDG_DATA_HOME': os.path.join(scratch, 'xdg'),
        'NUMBA_CACHE_DIR': os.path.join(scratch, 'numba'),
        'NUMBA_NUM_THREADS': '1',
        'NUMBA_THREADING_LAYER': 'workqueue',   # the OpenMP layer refuses to fork() once it has been used
        'OMP_NUM_THREADS': '1',
        'OPENBLAS_NUM_THREADS': '1',
        'MKL_NUM_THREADS': '1',
        'TMPDIR': os.path.join(scratch, 'tmp'),
        'VERIF_SCRATCH': scratch,
        'VERIF_CHILD': '1',
        'PYTHONDONTWRITEBYTECODE': '1',
        'MPLBACKEND': 'Agg',
        GUARD: '1',
    })
    pp = env.get('PYTHONPATH', '')
    env['PYTHONPATH'] = VERIF + (os.pathsep + pp if pp else '')
    return env


def run_in_child(argv, wall_cap_s: float) -> int:
    """Re-run this program in a child with the isolated environment. Returns the exit code."""
    scratch = tempfile.mkdtemp(prefix='tpyverif-')
    try:
        for sub in ('xdg', 'numba', 'tmp'):
            os.makedirs(os.path.join(scratch, sub), exist_ok=True)
        env = child_env(scratch)
        try:
            proc = subprocess.Popen([sys.executable] + argv, env=env, cwd=VERIF, start_new_session=True)
            try:
                return proc.wait(timeout=wall_cap_s)
            except subprocess.TimeoutExpired:
                _kill_group(proc)
                print('HARNESS-TIMEOUT: check exceeded its wall-clock cap of %.0f s' % wall_cap_s, flush=True)
                return 3
            except KeyboardInterrupt:
                _kill_group(proc)
                return 130
        finally:
            pass
    finally:
        shutil.rmtree(scratch, ignore_errors=True)


def _kill_group(proc):
    import signal
    try:
        os.killpg(proc.pid, signal.SIGKILL)
    except Exception:
        pass
    try:
        proc.wait(timeout=10)
    except Exception:
        pass


def scratch_dir() -> str:
    return os.environ['VERIF_SCRATCH']


def source_fingerprint(rel_paths) -> dict:
    """sha256 (first 16 hex) of each listed file of /repo - recorded in replay files and evidence."""
    import hashlib
    out = {}
    for rel in rel_paths:
        p = os.path.join(REPO, rel)
        try:
            with open(p, 'rb') as f:
                out[rel] = hashlib.sha256(f.read()).hexdigest()[:16]
        except OSError:
            out[rel] = None
    return out


def stale_extensions() -> list:
    """.pyx files newer than their compiled .so (cannot be rebuilt here: no Cython in the image)."""
    import glob
    stale = []
    for pyx in glob.glob(os.path.join(REPO, 'TidalPy', '**', '*.pyx'), recursive=True):
        base = pyx[:-4]
        sos = glob.glob(base + '.*.so')
        if not sos:
            continue
        if os.path.getmtime(pyx) > max(os.path.getmtime(s) for s in sos) + 1.0:
            stale.append(os.path.relpath(pyx, REPO))
    return sorted(stale)


def rebuild_stale_c_extensions(scratch):
    """Checks run against /repo's current working tree.  Python sources are imported live; compiled extensions cannot be
    regenerated from .pyx here (no Cython), but when a generated .c file is NEWER than its .so (someone changed the C
    translation unit), it is recompiled with gcc into an overlay copy of the package under `scratch`, which is then put
    in front of /repo on the import path.  Returns (overlay root or None, list of rebuilt modules, list of errors)."""
    import glob
    import json
    import subprocess
    import sysconfig
    cfg_path = os.path.join(REPO, 'cython_extensions.json')
    if not os.path.exists(cfg_path):
        return None, [], []
    with open(cfg_path) as f:
        exts = json.load(f)
    stale = []
    for key, e in exts.items():
        rel = os.path.join(*e['sources'][0])
        c = os.path.join(REPO, rel[:-4] + '.c')
        sos = glob.glob(os.path.join(REPO, rel[:-4] + '.*.so'))
        if os.path.exists(c) and sos and os.path.getmtime(c) > max(os.path.getmtime(x) for x in sos) + 1.0:
            stale.append((key, e, rel[:-4], os.path.basename(sos[0])))
    if not stale:
        return None, [], []
    overlay = os.path.join(scratch, 'overlay')
    shutil.copytree(os.path.join(REPO, 'TidalPy'), os.path.join(overlay, 'TidalPy'), ignore=shutil.ignore_patterns('__pycache__'))
    import numpy
    rebuilt, errors = [], []
    try:
        import CyRK
        cyrk_inc = ['-I' + os.path.join(os.path.dirname(CyRK.__file__), 'cy')]
    except Exception:
        cyrk_inc = []
    for key, e, stem, so_name in stale:
        inc = ['-I' + os.path.join(REPO, *d) for d in e.get('include_dirs', [])]
        cmd = (['gcc', '-shared', '-fPIC', '-O2', '-fopenmp', '-DNPY_NO_DEPRECATED_API=NPY_1_7_API_VERSION',
                '-I' + sysconfig.get_paths()['include'], '-I' + numpy.get_include()] + cyrk_inc + inc + e.get('compile_args', []) +
               [os.path.join(REPO, stem + '.c'), '-o', os.path.join(overlay, os.path.dirname(stem), so_name)] + e.get('link_args', []))
        p = subprocess.run(cmd, capture_output=True, text=True)
        if p.returncode == 0:
            rebuilt.append(e['name'])
        else:
            errors.append('%s: gcc failed: %s' % (e['name'], p.stderr[-300:]))
    return overlay, rebuilt, errors
