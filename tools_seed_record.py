#!/venv/bin/python
"""tools_seed_record.py <seed id>... : run tools_seed_eval.sh for each seed and record the outcome in its meta.json."""
import json, re, subprocess, sys
for sid in sys.argv[1:]:
    out = subprocess.run(['/verif/tools_seed_eval.sh', sid, '--no-selftest'], capture_output=True, text=True).stdout
    m = re.search(r'check exit=(\d+)', out)
    classes = sorted(set(re.findall(r'clause=(\S+) class=(.+?) seed=', out)))
    summ = re.search(r'^summary: (.*)$', out, re.M)
    p = '/verif/seeded/%s/meta.json' % sid
    meta = json.load(open(p))
    meta['check_result'] = {'command': './tools_seed_eval.sh %s --no-selftest  (git apply patch.diff; ./check %s --tier quick; git checkout)' % (sid, meta['property']),
                            'repo_head': subprocess.run(['git', '-C', '/repo', 'rev-parse', '--short', 'HEAD'], capture_output=True, text=True).stdout.strip(),
                            'exit': int(m.group(1)) if m else None, 'violation_classes': ['%s|%s' % c for c in classes],
                            'summary': summ.group(1) if summ else None, 'detected': bool(m and m.group(1) == '1')}
    json.dump(meta, open(p, 'w'), indent=1)
    print(sid, meta['check_result']['exit'], meta['check_result']['violation_classes'][:4])
