#!/bin/sh
# tools_benign_eval.sh [fixture.diff ...] : run the owning property's quick check against behaviour-preserving edits
# (overlay copy of the package; /repo is not touched).  Default: every fixture under benign/.
cd /verif
[ $# -eq 0 ] && set -- benign/*/*.diff
for f in "$@"; do
  prop=$(basename "$(dirname "$f")")
  echo "== $f ($prop)"
  ./tools_seed_eval_overlay.sh "$(realpath "$f")" "$prop" --no-selftest --workers 6
done
