#!/bin/sh
# Offline setup: nothing is fetched or built; verify the toolchain the checks need and create output directories.
cd "$(dirname "$0")" || exit 1
mkdir -p evidence replays
/venv/bin/python - <<'PY' || exit 1
import sys
import numpy, scipy, numba, dill, pathos, multiprocess, psutil  # noqa
sys.path.insert(0, '.')
import simkit.cli  # noqa
print('setup ok: python %s numpy %s numba %s dill %s' % (sys.version.split()[0], numpy.__version__, numba.__version__, dill.__version__))
PY
