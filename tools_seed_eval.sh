#!/bin/sh
# tools_seed_eval.sh <seed id> [extra check args] : apply /verif/seeded/<id>/patch.diff to /repo, run the quick check of
# the property it breaks, undo the patch straight afterwards. Prints the check's VIOLATION / summary lines.
id="$1"; shift
d="/verif/seeded/$id"
prop=$(/venv/bin/python -c "import json,sys; print(json.load(open('$d/meta.json'))['property'])")
[ -n "$(git -C /repo status --porcelain --untracked-files=no)" ] && { echo "/repo is not clean"; exit 2; }
git -C /repo apply "$d/patch.diff" || exit 2
cd /verif && ./check "$prop" --tier quick --no-evidence "$@" > "/tmp/seed_eval_$id.log" 2>&1
rc=$?
git -C /repo checkout -- .
echo "seed $id property $prop check exit=$rc"
grep -E "^VIOLATION|clause=|^summary" "/tmp/seed_eval_$id.log" | cut -c1-260 | head -12
exit 0
