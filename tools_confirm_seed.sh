#!/bin/sh
# tools_confirm_seed.sh <worktree> : confirm a sub-agent's seeded change in its scratch worktree
#   1. patch.diff applies to a clean checkout   2. demo fails WITH the change   3. demo passes WITHOUT it
#   4. the existing test suite still passes with the change (892 stable passes expected)
wt="$1"; cd "$wt" || exit 2
export XDG_DATA_HOME="$wt/.xdg" NUMBA_CACHE_DIR="$wt/.numba" NUMBA_NUM_THREADS=1
p="$wt/_seed/patch.diff"
git checkout -- . 2>/dev/null
git apply --check "$p" || { echo "CONFIRM: patch does not apply"; exit 1; }
timeout 900 /venv/bin/python _seed/demo.py > _seed/confirm_demo_clean.out 2>&1; clean=$?
git apply "$p"
timeout 900 /venv/bin/python _seed/demo.py > _seed/confirm_demo_changed.out 2>&1; changed=$?
echo "CONFIRM: demo exit clean=$clean changed=$changed"
timeout 6000 /venv/bin/python -m pytest -q -p no:cacheprovider --timeout=900 --continue-on-collection-errors --junitxml="$wt/_seed/confirm_junit.xml" Tests > _seed/confirm_tests.out 2>&1
tail -1 _seed/confirm_tests.out
grep -E "^FAILED|^ERROR" _seed/confirm_tests.out | head -10
