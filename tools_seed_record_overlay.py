#!/venv/bin/python
"""tools_seed_record_overlay.py <seed id>... : like tools_seed_record.py, but evaluates each seed on an overlay copy of the
package (tools_seed_eval_overlay.sh), so /repo is not touched (usable while other runs import /repo)."""
import json, re, subprocess, sys
for sid in sys.argv[1:]:
    p = '/verif/seeded/%s/meta.json' % sid
    meta = json.load(open(p))
    out = subprocess.run(['/verif/tools_seed_eval_overlay.sh', '/verif/seeded/%s/patch.diff' % sid, meta['property'], '--no-selftest', '--workers', '6'],
                         capture_output=True, text=True).stdout
    classes = sorted(set(re.findall(r'clause=(\S+) class=(.+?) seed=', out)))
    summ = re.search(r'^summary: (.*)$', out, re.M)
    detected = 'VIOLATION property=' in out
    meta['check_result'] = {'command': './tools_seed_eval_overlay.sh seeded/%s/patch.diff %s --no-selftest  (overlay copy of /repo/TidalPy with the patch applied; ./check %s --tier quick)' % (sid, meta['property'], meta['property']),
                            'repo_head': subprocess.run(['git', '-C', '/repo', 'rev-parse', '--short', 'HEAD'], capture_output=True, text=True).stdout.strip(),
                            'exit': 1 if detected else (0 if summ else None), 'violation_classes': ['%s|%s' % c for c in classes],
                            'summary': summ.group(1) if summ else None, 'detected': detected}
    json.dump(meta, open(p, 'w'), indent=1)
    print(sid, meta['check_result']['exit'], meta['check_result']['violation_classes'][:4])
