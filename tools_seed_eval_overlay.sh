#!/bin/sh
# tools_seed_eval_overlay.sh <patch file> <property> [extra check args]
# Evaluate a seeded change WITHOUT touching /repo (used while background runs that import /repo are in flight):
# the TidalPy package is copied to a scratch overlay, the patch is applied there, and the check imports the overlay.
patch="$1"; prop="$2"; shift 2
ov=$(mktemp -d /tmp/seed_overlay_XXXXXX)
rsync -a --exclude='__pycache__' /repo/TidalPy "$ov/" || exit 2
(cd "$ov" && patch -p1 -s < "$patch") || { echo "patch failed"; rm -rf "$ov"; exit 2; }
cd /verif && VERIF_OVERLAY="$ov" PYTHONPATH="$ov" ./check "$prop" --tier quick --no-evidence "$@" 2>/dev/null | grep -E "^VIOLATION|clause=|^summary|HARNESS" | cut -c1-260 | head -12
rm -rf "$ov"
